// Counterexample for property C03, harness vk_c03_step_pop
// bounds: one pop from any valid state with an activation on top: up to 4 variable blocks and 4 activation states, any reference counts, any assignment of states to blocks, up to two STATIC subprograms, constrained only by the representation invariant (an inductive step: covers call histories of any length)
// functions: rusty_basic::interpreter::context::Context::{new, begin_collecting_arguments, stop_collecting_arguments, stop_collecting_arguments_static, pop, push_error_handler_context, global_variables, variables, variables_mut, caller_variables, caller_variables_memory_block_index, arguments_mut, drop_arguments_for_array_allocation, state, state_mut, current_memory_block_index, do_push_new, do_push_existing, do_push_state, do_pop, increase_ref_count, decrease_ref_count} (text, sliced), rusty_basic::interpreter::context::{State, MemoryBlock} (text, sliced)
// failed check: assertion failed: vk_invariant(&c)
//   assertion failed: vk_invariant(&c) at rusty_basic/src/interpreter/context.rs:1135:17 in function interpreter::context::vk_c03::vk_c03_step_pop
// native replay: dev=False release=False dev/kani_concrete_playback_vk_c03_step_pop_850917785724424823: native build failed; release/kani_concrete_playback_vk_c03_step_pop_850917785724424823: native build failed
// BASIC program reaching the failing call:
//   DECLARE SUB A ()
//   DECLARE SUB S ()
//   A
//   S
//   SUB A
//     S
//   END SUB
//   SUB S STATIC
//     X = X + 1
//     PRINT X
//   END SUB
// Replay: ./vk replay /verif/replays/C03-vk_c03_step_pop.rs   (re-injects the harness module below into a scratch copy of /repo,
//   adds this unit test and runs `cargo kani playback`).
// vk-meta: {"property": "C03", "harness": "vk_c03_step_pop", "file": "rusty_basic/src/interpreter/context.rs", "crate": "rusty_basic", "module": "vk_c03"}

/// Test generated for harness `interpreter::context::vk_c03::vk_c03_step_pop` 
///
/// Check for `assertion`: "assertion failed: vk_invariant(&c)"

#[test]
fn kani_concrete_playback_vk_c03_step_pop_850917785724424823() {
    let concrete_vals: Vec<Vec<u8>> = vec![
        // 4ul
        vec![4, 0, 0, 0, 0, 0, 0, 0],
        // 3ul
        vec![3, 0, 0, 0, 0, 0, 0, 0],
        // 0
        vec![0, 0, 0, 0],
        // 2ul
        vec![2, 0, 0, 0, 0, 0, 0, 0],
        // 0
        vec![0],
        // 511
        vec![255, 1, 0, 0],
        // 2
        vec![2, 0, 0, 0],
        // 1ul
        vec![1, 0, 0, 0, 0, 0, 0, 0],
        // 1
        vec![1],
        // 991
        vec![223, 3, 0, 0],
        // 374
        vec![118, 1, 0, 0],
        // 1ul
        vec![1, 0, 0, 0, 0, 0, 0, 0],
        // 0
        vec![0],
        // 999
        vec![231, 3, 0, 0],
        // 378
        vec![122, 1, 0, 0],
        // 1ul
        vec![1, 0, 0, 0, 0, 0, 0, 0],
        // 1
        vec![1],
        // 511
        vec![255, 1, 0, 0],
        // 0ul
        vec![0, 0, 0, 0, 0, 0, 0, 0],
        // 0
        vec![0],
        // 4294967295
        vec![255, 255, 255, 255],
        // 0ul
        vec![0, 0, 0, 0, 0, 0, 0, 0],
        // 0
        vec![0],
        // 4294967295
        vec![255, 255, 255, 255],
        // 2ul
        vec![2, 0, 0, 0, 0, 0, 0, 0],
        // 0
        vec![0],
        // 4294967295
        vec![255, 255, 255, 255],
        // 1
        vec![1],
        // 1ul
        vec![1, 0, 0, 0, 0, 0, 0, 0],
        // 1
        vec![1],
        // 3ul
        vec![3, 0, 0, 0, 0, 0, 0, 0],
    ];
    kani::concrete_playback_run(concrete_vals, vk_c03_step_pop);
}

