// Counterexample for property C20, harness vk_c20_map_fatal_err
// bounds: sub-parsers: arbitrary behaviours satisfying K, at most 7 calls, moves of 0..3 positions; start position 0..4
// functions: rusty_pc::map_fatal_err::MapFatalErrParser::parse
// failed check: assertion failed: !e.fatal && e.id == l.val[0]
//   assertion failed: !e.fatal && e.id == l.val[0] at rusty_pc/src/lib.rs:1167:50 in function vk_c20::vk_c20_map_fatal_err
// native replay: dev=True release=True dev/kani_concrete_playback_vk_c20_map_fatal_err_3756649500992411299: panicked at rusty_pc/src/lib.rs:1167:50: assertion failed: !e.fatal && e.id == l.val[0]; dev/kani_concrete_playback_vk_c20_map_fatal_err_1840959054093631068: passes natively; release/kani_concrete_playback_vk_c20_map_fatal_err_3756649500992411299: panicked at rusty_pc/src/lib.rs:1167:50: assertion failed: !e.fatal && e.id == l.val[0]; release/kani_concrete_playback_vk_c20_map_fatal_err_1840959054093631068: passes natively
// Replay: ./vk replay /verif/replays/C20-vk_c20_map_fatal_err.rs   (re-injects the harness module below into a scratch copy of /repo,
//   adds this unit test and runs `cargo kani playback`).
// vk-meta: {"property": "C20", "harness": "vk_c20_map_fatal_err", "file": "rusty_pc/src/lib.rs", "crate": "rusty_pc", "module": "vk_c20"}

/// Test generated for harness `vk_c20::vk_c20_map_fatal_err` 
///
/// Check for `assertion`: "assertion failed: !e.fatal && e.id == l.val[0]"

#[test]
fn kani_concrete_playback_vk_c20_map_fatal_err_3756649500992411299() {
    let concrete_vals: Vec<Vec<u8>> = vec![
        // 0ul
        vec![0, 0, 0, 0, 0, 0, 0, 0],
        // 1
        vec![1],
        // 0ul
        vec![0, 0, 0, 0, 0, 0, 0, 0],
        // 0
        vec![0],
    ];
    kani::concrete_playback_run(concrete_vals, vk_c20_map_fatal_err);
}

/// Test generated for harness `vk_c20::vk_c20_map_fatal_err` 
///
/// Check for `cover`: "vk_reached"

#[test]
fn kani_concrete_playback_vk_c20_map_fatal_err_1840959054093631068() {
    let concrete_vals: Vec<Vec<u8>> = vec![
        // 0ul
        vec![0, 0, 0, 0, 0, 0, 0, 0],
        // 0
        vec![0],
        // 0ul
        vec![0, 0, 0, 0, 0, 0, 0, 0],
        // 0
        vec![0],
    ];
    kani::concrete_playback_run(concrete_vals, vk_c20_map_fatal_err);
}

