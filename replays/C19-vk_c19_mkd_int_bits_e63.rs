// Counterexample for property C19, harness vk_c19_mkd_int_bits_e63
// bounds: x = 1.m * 2^63, all 2^52 mantissas; unwind 67 (checked)
// functions: rusty_variant::bits::f64_int_bits
// failed check: assertion failed: got.len() == 63
//   assertion failed: got.len() == 63 at rusty_variant/src/bits.rs:2292:17 in function bits::vk_c19::vk_c19_mkd_int_bits_e63
// native replay: dev=True release=True dev/kani_concrete_playback_vk_c19_mkd_int_bits_e63_4208335957671079258: panicked at rusty_variant/src/bits.rs:2292:17: assertion failed: got.len() == 63; release/kani_concrete_playback_vk_c19_mkd_int_bits_e63_4208335957671079258: panicked at rusty_variant/src/bits.rs:2292:17: assertion failed: got.len() == 63
// BASIC program reaching the failing call:
//   PRINT CVD(MKD$(1.6D+20))
// Replay: ./vk replay /verif/replays/C19-vk_c19_mkd_int_bits_e63.rs   (re-injects the harness module below into a scratch copy of /repo,
//   adds this unit test and runs `cargo kani playback`).
// vk-meta: {"property": "C19", "harness": "vk_c19_mkd_int_bits_e63", "file": "rusty_variant/src/bits.rs", "crate": "rusty_variant", "module": "vk_c19"}

/// Test generated for harness `bits::vk_c19::vk_c19_mkd_int_bits_e63` 
///
/// Check for `assertion`: "assertion failed: got.len() == 63"

#[test]
fn kani_concrete_playback_vk_c19_mkd_int_bits_e63_4208335957671079258() {
    let concrete_vals: Vec<Vec<u8>> = vec![
        // 0ul
        vec![0, 0, 0, 0, 0, 0, 0, 0],
    ];
    kani::concrete_playback_run(concrete_vals, vk_c19_mkd_int_bits_e63);
}

