// Counterexample for property C17, harness vk_c17_rtrim_ctl_len2
// bounds: every string of exactly 2 characters over {blank, x, TAB, LF}
// functions: rusty_basic::interpreter::built_ins::rtrim::run (body, sliced)
// failed check: assertion failed: rb.len() == hi - lo
//   assertion failed: rb.len() == hi - lo at rusty_basic/src/interpreter/built_ins/rtrim.rs:265:17 in function interpreter::built_ins::rtrim::vk_c17::vk_c17_rtrim_ctl_len2
// native replay: dev=True release=True dev/kani_concrete_playback_vk_c17_rtrim_ctl_len2_14984081720157513766: panicked at rusty_basic/src/interpreter/built_ins/rtrim.rs:265:17: assertion failed: rb.len() == hi - lo; release/kani_concrete_playback_vk_c17_rtrim_ctl_len2_14984081720157513766: panicked at rusty_basic/src/interpreter/built_ins/rtrim.rs:265:17: assertion failed: rb.len() == hi - lo
// BASIC program reaching the failing call:
//   PRINT "[" + RTRIM$(CHR$(9) + "x" + CHR$(9)) + "]"
// Replay: ./vk replay /verif/replays/C17-vk_c17_rtrim_ctl_len2.rs   (re-injects the harness module below into a scratch copy of /repo,
//   adds this unit test and runs `cargo kani playback`).
// vk-meta: {"property": "C17", "harness": "vk_c17_rtrim_ctl_len2", "file": "rusty_basic/src/interpreter/built_ins/rtrim.rs", "crate": "rusty_basic", "module": "vk_c17"}

/// Test generated for harness `interpreter::built_ins::rtrim::vk_c17::vk_c17_rtrim_ctl_len2` 
///
/// Check for `assertion`: "assertion failed: rb.len() == hi - lo"

#[test]
fn kani_concrete_playback_vk_c17_rtrim_ctl_len2_14984081720157513766() {
    let concrete_vals: Vec<Vec<u8>> = vec![
        // 1
        vec![1],
        // 0
        vec![0],
    ];
    kani::concrete_playback_run(concrete_vals, vk_c17_rtrim_ctl_len2);
}

