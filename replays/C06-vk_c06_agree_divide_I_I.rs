// Counterexample for property C06, harness vk_c06_agree_divide_I_I
// bounds: every valid INTEGER x INTEGER pair (full width)
// functions: rusty_linter::core::casting::cast_binary_op_q, rusty_variant::Variant::divide
// failed check: assertion failed: t == 0
//   assertion failed: t == 0 at rusty_linter/src/core/casting.rs:1306:60 in function core::casting::vk_c06::vk_c06_agree_divide_I_I
// native replay: dev=True release=True dev/kani_concrete_playback_vk_c06_agree_divide_I_I_11495397963500439757: panicked at rusty_linter/src/core/casting.rs:1306:60: assertion failed: t == 0; release/kani_concrete_playback_vk_c06_agree_divide_I_I_11495397963500439757: panicked at rusty_linter/src/core/casting.rs:1306:60: assertion failed: t == 0
// BASIC program reaching the failing call:
//   A% = 1 / 3
//   PRINT A%   ' prints .3333333: the static type of 1 / 3 is INTEGER, so no Cast is emitted
// Replay: ./vk replay /verif/replays/C06-vk_c06_agree_divide_I_I.rs   (re-injects the harness module below into a scratch copy of /repo,
//   adds this unit test and runs `cargo kani playback`).
// vk-meta: {"property": "C06", "harness": "vk_c06_agree_divide_I_I", "file": "rusty_linter/src/core/casting.rs", "crate": "rusty_linter", "module": "vk_c06"}

/// Test generated for harness `core::casting::vk_c06::vk_c06_agree_divide_I_I` 
///
/// Check for `assertion`: "assertion failed: t == 0"

#[test]
fn kani_concrete_playback_vk_c06_agree_divide_I_I_11495397963500439757() {
    let concrete_vals: Vec<Vec<u8>> = vec![
        // 16384
        vec![0, 64],
        // -32768
        vec![0, 128],
    ];
    kani::concrete_playback_run(concrete_vals, vk_c06_agree_divide_I_I);
}

