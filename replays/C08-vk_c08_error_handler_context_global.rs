// Counterexample for property C08, harness vk_c08_error_handler_context_global
// bounds: 0..3 pending argument-collecting states, at global level / inside one subprogram activation
// functions: rusty_basic::interpreter::context::Context::push_error_handler_context, rusty_basic::interpreter::context::Context::pop, rusty_basic::interpreter::context::Context::begin_collecting_arguments
// failed check: assertion
//   assertion at Unknown file in function std::sys::random::linux::getrandom::getrandom
//   call to foreign "C" function `syscall` is not currently supported by Kani. Please post your example at https://github.com/model-checking/kani/issues/2423 at ../../../../home/runner/.cargo/registry/src/index.crates.io-1949cf8c6b5b557f/libc-0.2.189/src/unix/linux_like/linux/mod.rs:3643:5 in function std::sys::sync::futex::unix::futex_wake_all
// native replay: dev=False release=False dev/kani_concrete_playback_vk_c08_error_handler_context_global_10342319542449045681: playback mismatch (panicked at library/kani/src/concrete_playback.rs:61:46: Not enough det vals found); release/kani_concrete_playback_vk_c08_error_handler_context_global_10342319542449045681: playback mismatch (panicked at library/kani/src/concrete_playback.rs:61:46: Not enough det vals found)
// Replay: ./vk replay /verif/replays/C08-vk_c08_error_handler_context_global.rs   (re-injects the harness module below into a scratch copy of /repo,
//   adds this unit test and runs `cargo kani playback`).
// vk-meta: {"property": "C08", "harness": "vk_c08_error_handler_context_global", "file": "rusty_basic/src/interpreter/context.rs", "crate": "rusty_basic", "module": "vk_c08"}

/// Test generated for harness `interpreter::context::vk_c08::vk_c08_error_handler_context_global` 
///
/// Check for `missing_definition`: "assertion"

#[test]
fn kani_concrete_playback_vk_c08_error_handler_context_global_10342319542449045681() {
    let concrete_vals: Vec<Vec<u8>> = vec![
    ];
    kani::concrete_playback_run(concrete_vals, vk_c08_error_handler_context_global);
}

