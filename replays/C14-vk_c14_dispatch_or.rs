// Counterexample for property C14, harness vk_c14_dispatch_or
// bounds: Or on operands of any of the 16 numeric type pairs, for every behaviour of the operations on values (uninterpreted: any result or error for the application, any ordering, any outcome of the conversions to INTEGER)
// functions: rusty_linter::core::const_value_resolver::ConstEvaluator::eval_const (text, sliced: operator dispatch of the BinaryExpression arm), rusty_basic::interpreter::handlers::logical::or (text, sliced)
// failed check: assertion failed: false
//   assertion failed: false at rusty_basic/src/interpreter/handlers/logical.rs:3406:136 in function interpreter::handlers::logical::vk_c14::vk_abs::vk_same
//   assertion failed: false at rusty_basic/src/interpreter/handlers/logical.rs:3406:165 in function interpreter::handlers::logical::vk_c14::vk_abs::vk_same
//   assertion failed: false at rusty_basic/src/interpreter/handlers/logical.rs:3404:157 in function interpreter::handlers::logical::vk_c14::vk_abs::vk_same
//   assertion failed: false at rusty_basic/src/interpreter/handlers/logical.rs:3405:140 in function interpreter::handlers::logical::vk_c14::vk_abs::vk_same
//   assertion failed: false at rusty_basic/src/interpreter/handlers/logical.rs:3405:169 in function interpreter::handlers::logical::vk_c14::vk_abs::vk_same
// native replay: dev=True release=True dev/kani_concrete_playback_vk_c14_dispatch_or_11106111482818495644: panicked at rusty_basic/src/interpreter/handlers/logical.rs:3406:136: assertion failed: false; dev/kani_concrete_playback_vk_c14_dispatch_or_3513939478465845675: panicked at rusty_basic/src/interpreter/handlers/logical.rs:3406:165: assertion failed: false; dev/kani_concrete_playback_vk_c14_dispatch_or_1938242511179202282: panicked at rusty_basic/src/interpreter/handlers/logical.rs:3404:157: assertion failed: false; dev/kani_concrete_playback_vk_c14_dispatch_or_6251384589335574402: panicked at rusty_basic/src/interpreter/handlers/logical.rs:3405:140: assertion failed: false; dev/kani_concrete_playback_vk_c14_dispatch_or_109853702756787556: panicked at rusty_basic/src/interpreter/handlers/logical.rs:3405:169: assertion failed: false; dev/kani_concrete_playback_vk_c14_dispatch_or_1374010042747206550: panicked at rusty_basic/src/interpreter/handlers/logical.rs:3403:87: assertion failed: false; dev/kani_concrete_playback_vk_c14_dispatch_or_1226231707814315470: panicked at rusty_basic/src/interpreter/handlers/logical.rs:3403:107: assertion failed: c == a_after; release/kani_concrete_playback_vk_c14_dispatch_or_11106111482818495644: panicked at rusty_basic/src/interpreter/handlers/logical.rs:3406:136: assertion failed: false; release/kani_concrete_playback_vk_c14_dispatch_or_3513939478465845675: panicked at rusty_basic/src/interpreter/handlers/logical.rs:3406:165: assertion failed: false; release/kani_concrete_playback_vk_c14_dispatch_or_1938242511179202282: panicked at rusty_basic/src/interpreter/handlers/logical.rs:3404:157: assertion failed: false; release/kani_concrete_playback_vk_c14_dispatch_or_6251384589335574402: panicked at rusty_basic/src/interpreter/handlers/logical.rs:3405:140: assertion failed: false; release/kani_concrete_playback_vk_c14_dispatch_or_109853702756787556: panicked at rusty_basic/src/interpreter/handlers/logical.rs:3405:169: assertion failed: false; release/kani_concrete_playback_vk_c14_dispatch_or_1374010042747206550: panicked at rusty_basic/src/interpreter/handlers/logical.rs:3403:87: assertion failed: false; release/kani_concrete_playback_vk_c14_dispatch_or_1226231707814315470: panicked at rusty_basic/src/interpreter/handlers/logical.rs:3403:107: assertion failed: c == a_after
// BASIC program reaching the failing call:
//   CONST C = 3& AND 1
//   PRINT C
//   PRINT 3& AND 1
// Replay: ./vk replay /verif/replays/C14-vk_c14_dispatch_or.rs   (re-injects the harness module below into a scratch copy of /repo,
//   adds this unit test and runs `cargo kani playback`).
// vk-meta: {"property": "C14", "harness": "vk_c14_dispatch_or", "file": "rusty_basic/src/interpreter/handlers/logical.rs", "crate": "rusty_basic", "module": "vk_c14"}

/// Test generated for harness `interpreter::handlers::logical::vk_c14::vk_c14_dispatch_or` 
///
/// Check for `assertion`: "assertion failed: false"

#[test]
fn kani_concrete_playback_vk_c14_dispatch_or_11106111482818495644() {
    let concrete_vals: Vec<Vec<u8>> = vec![
        // 255
        vec![255],
        // 255
        vec![255],
        // 0
        vec![0],
        // 0
        vec![0],
        // 255
        vec![255],
        // 2
        vec![2],
    ];
    kani::concrete_playback_run(concrete_vals, vk_c14_dispatch_or);
}

/// Test generated for harness `interpreter::handlers::logical::vk_c14::vk_c14_dispatch_or` 
///
/// Check for `assertion`: "assertion failed: false"

#[test]
fn kani_concrete_playback_vk_c14_dispatch_or_3513939478465845675() {
    let concrete_vals: Vec<Vec<u8>> = vec![
        // 254
        vec![254],
        // 252
        vec![252],
        // 0
        vec![0],
        // 1
        vec![1],
        // 0
        vec![0],
        // 2
        vec![2],
    ];
    kani::concrete_playback_run(concrete_vals, vk_c14_dispatch_or);
}

/// Test generated for harness `interpreter::handlers::logical::vk_c14::vk_c14_dispatch_or` 
///
/// Check for `assertion`: "assertion failed: false"

#[test]
fn kani_concrete_playback_vk_c14_dispatch_or_1938242511179202282() {
    let concrete_vals: Vec<Vec<u8>> = vec![
        // 254
        vec![254],
        // 252
        vec![252],
        // 0
        vec![0],
        // 1
        vec![1],
        // 0
        vec![0],
        // 0
        vec![0],
    ];
    kani::concrete_playback_run(concrete_vals, vk_c14_dispatch_or);
}

/// Test generated for harness `interpreter::handlers::logical::vk_c14::vk_c14_dispatch_or` 
///
/// Check for `assertion`: "assertion failed: false"

#[test]
fn kani_concrete_playback_vk_c14_dispatch_or_6251384589335574402() {
    let concrete_vals: Vec<Vec<u8>> = vec![
        // 254
        vec![254],
        // 252
        vec![252],
        // 0
        vec![0],
        // 0
        vec![0],
        // 1
        vec![1],
        // 1
        vec![1],
    ];
    kani::concrete_playback_run(concrete_vals, vk_c14_dispatch_or);
}

/// Test generated for harness `interpreter::handlers::logical::vk_c14::vk_c14_dispatch_or` 
///
/// Check for `assertion`: "assertion failed: false"

#[test]
fn kani_concrete_playback_vk_c14_dispatch_or_109853702756787556() {
    let concrete_vals: Vec<Vec<u8>> = vec![
        // 254
        vec![254],
        // 252
        vec![252],
        // 0
        vec![0],
        // 1
        vec![1],
        // 1
        vec![1],
        // 1
        vec![1],
    ];
    kani::concrete_playback_run(concrete_vals, vk_c14_dispatch_or);
}

/// Test generated for harness `interpreter::handlers::logical::vk_c14::vk_c14_dispatch_or` 
///
/// Check for `assertion`: "assertion failed: false"

#[test]
fn kani_concrete_playback_vk_c14_dispatch_or_1374010042747206550() {
    let concrete_vals: Vec<Vec<u8>> = vec![
        // 254
        vec![254],
        // 252
        vec![252],
        // 0
        vec![0],
        // 0
        vec![0],
        // 255
        vec![255],
        // 3
        vec![3],
        // 1
        vec![1],
    ];
    kani::concrete_playback_run(concrete_vals, vk_c14_dispatch_or);
}

/// Test generated for harness `interpreter::handlers::logical::vk_c14::vk_c14_dispatch_or` 
///
/// Check for `assertion`: "assertion failed: c == a_after"

#[test]
fn kani_concrete_playback_vk_c14_dispatch_or_1226231707814315470() {
    let concrete_vals: Vec<Vec<u8>> = vec![
        // 252
        vec![252],
        // 255
        vec![255],
        // 255
        vec![255],
        // 255
        vec![255],
        // 255
        vec![255],
        // 255
        vec![255],
        // 255
        vec![255],
    ];
    kani::concrete_playback_run(concrete_vals, vk_c14_dispatch_or);
}

