// Counterexample for property C14, harness vk_c14_dispatch_and
// bounds: And on operands of any of the 16 numeric type pairs, for every behaviour of the operations on values (uninterpreted: any result or error for the application, any ordering, any outcome of the conversions to INTEGER)
// functions: rusty_linter::core::const_value_resolver::ConstEvaluator::eval_const (text, sliced: operator dispatch of the BinaryExpression arm), rusty_basic::interpreter::handlers::logical::and (text, sliced)
// failed check: assertion failed: false
//   assertion failed: false at rusty_basic/src/interpreter/handlers/logical.rs:3448:136 in function interpreter::handlers::logical::vk_c14::vk_abs::vk_same
//   assertion failed: false at rusty_basic/src/interpreter/handlers/logical.rs:3448:165 in function interpreter::handlers::logical::vk_c14::vk_abs::vk_same
//   assertion failed: false at rusty_basic/src/interpreter/handlers/logical.rs:3446:157 in function interpreter::handlers::logical::vk_c14::vk_abs::vk_same
//   assertion failed: false at rusty_basic/src/interpreter/handlers/logical.rs:3447:140 in function interpreter::handlers::logical::vk_c14::vk_abs::vk_same
//   assertion failed: false at rusty_basic/src/interpreter/handlers/logical.rs:3447:169 in function interpreter::handlers::logical::vk_c14::vk_abs::vk_same
// native replay: dev=True release=True dev/kani_concrete_playback_vk_c14_dispatch_and_4475436926829482938: panicked at rusty_basic/src/interpreter/handlers/logical.rs:3448:136: assertion failed: false; dev/kani_concrete_playback_vk_c14_dispatch_and_14814128932714565602: panicked at rusty_basic/src/interpreter/handlers/logical.rs:3448:165: assertion failed: false; dev/kani_concrete_playback_vk_c14_dispatch_and_12069108705844631202: panicked at rusty_basic/src/interpreter/handlers/logical.rs:3446:157: assertion failed: false; dev/kani_concrete_playback_vk_c14_dispatch_and_10107207187932172728: panicked at rusty_basic/src/interpreter/handlers/logical.rs:3447:140: assertion failed: false; dev/kani_concrete_playback_vk_c14_dispatch_and_2584907314408157327: panicked at rusty_basic/src/interpreter/handlers/logical.rs:3447:169: assertion failed: false; dev/kani_concrete_playback_vk_c14_dispatch_and_4406222441469791531: panicked at rusty_basic/src/interpreter/handlers/logical.rs:3445:87: assertion failed: false; dev/kani_concrete_playback_vk_c14_dispatch_and_1793264715898253857: panicked at rusty_basic/src/interpreter/handlers/logical.rs:3445:107: assertion failed: c == a_after; release/kani_concrete_playback_vk_c14_dispatch_and_4475436926829482938: panicked at rusty_basic/src/interpreter/handlers/logical.rs:3448:136: assertion failed: false; release/kani_concrete_playback_vk_c14_dispatch_and_14814128932714565602: panicked at rusty_basic/src/interpreter/handlers/logical.rs:3448:165: assertion failed: false; release/kani_concrete_playback_vk_c14_dispatch_and_12069108705844631202: panicked at rusty_basic/src/interpreter/handlers/logical.rs:3446:157: assertion failed: false; release/kani_concrete_playback_vk_c14_dispatch_and_10107207187932172728: panicked at rusty_basic/src/interpreter/handlers/logical.rs:3447:140: assertion failed: false; release/kani_concrete_playback_vk_c14_dispatch_and_2584907314408157327: panicked at rusty_basic/src/interpreter/handlers/logical.rs:3447:169: assertion failed: false; release/kani_concrete_playback_vk_c14_dispatch_and_4406222441469791531: panicked at rusty_basic/src/interpreter/handlers/logical.rs:3445:87: assertion failed: false; release/kani_concrete_playback_vk_c14_dispatch_and_1793264715898253857: panicked at rusty_basic/src/interpreter/handlers/logical.rs:3445:107: assertion failed: c == a_after
// BASIC program reaching the failing call:
//   CONST C = 3& AND 1
//   PRINT C
//   PRINT 3& AND 1
// Replay: ./vk replay /verif/replays/C14-vk_c14_dispatch_and.rs   (re-injects the harness module below into a scratch copy of /repo,
//   adds this unit test and runs `cargo kani playback`).
// vk-meta: {"property": "C14", "harness": "vk_c14_dispatch_and", "file": "rusty_basic/src/interpreter/handlers/logical.rs", "crate": "rusty_basic", "module": "vk_c14"}

/// Test generated for harness `interpreter::handlers::logical::vk_c14::vk_c14_dispatch_and` 
///
/// Check for `assertion`: "assertion failed: false"

#[test]
fn kani_concrete_playback_vk_c14_dispatch_and_4475436926829482938() {
    let concrete_vals: Vec<Vec<u8>> = vec![
        // 254
        vec![254],
        // 253
        vec![253],
        // 0
        vec![0],
        // 0
        vec![0],
        // 1
        vec![1],
        // 2
        vec![2],
    ];
    kani::concrete_playback_run(concrete_vals, vk_c14_dispatch_and);
}

/// Test generated for harness `interpreter::handlers::logical::vk_c14::vk_c14_dispatch_and` 
///
/// Check for `assertion`: "assertion failed: false"

#[test]
fn kani_concrete_playback_vk_c14_dispatch_and_14814128932714565602() {
    let concrete_vals: Vec<Vec<u8>> = vec![
        // 252
        vec![252],
        // 254
        vec![254],
        // 0
        vec![0],
        // 1
        vec![1],
        // 1
        vec![1],
        // 2
        vec![2],
    ];
    kani::concrete_playback_run(concrete_vals, vk_c14_dispatch_and);
}

/// Test generated for harness `interpreter::handlers::logical::vk_c14::vk_c14_dispatch_and` 
///
/// Check for `assertion`: "assertion failed: false"

#[test]
fn kani_concrete_playback_vk_c14_dispatch_and_12069108705844631202() {
    let concrete_vals: Vec<Vec<u8>> = vec![
        // 252
        vec![252],
        // 254
        vec![254],
        // 0
        vec![0],
        // 1
        vec![1],
        // 1
        vec![1],
        // 0
        vec![0],
    ];
    kani::concrete_playback_run(concrete_vals, vk_c14_dispatch_and);
}

/// Test generated for harness `interpreter::handlers::logical::vk_c14::vk_c14_dispatch_and` 
///
/// Check for `assertion`: "assertion failed: false"

#[test]
fn kani_concrete_playback_vk_c14_dispatch_and_10107207187932172728() {
    let concrete_vals: Vec<Vec<u8>> = vec![
        // 254
        vec![254],
        // 253
        vec![253],
        // 0
        vec![0],
        // 0
        vec![0],
        // 1
        vec![1],
        // 1
        vec![1],
    ];
    kani::concrete_playback_run(concrete_vals, vk_c14_dispatch_and);
}

/// Test generated for harness `interpreter::handlers::logical::vk_c14::vk_c14_dispatch_and` 
///
/// Check for `assertion`: "assertion failed: false"

#[test]
fn kani_concrete_playback_vk_c14_dispatch_and_2584907314408157327() {
    let concrete_vals: Vec<Vec<u8>> = vec![
        // 254
        vec![254],
        // 253
        vec![253],
        // 0
        vec![0],
        // 1
        vec![1],
        // 1
        vec![1],
        // 1
        vec![1],
    ];
    kani::concrete_playback_run(concrete_vals, vk_c14_dispatch_and);
}

/// Test generated for harness `interpreter::handlers::logical::vk_c14::vk_c14_dispatch_and` 
///
/// Check for `assertion`: "assertion failed: false"

#[test]
fn kani_concrete_playback_vk_c14_dispatch_and_4406222441469791531() {
    let concrete_vals: Vec<Vec<u8>> = vec![
        // 252
        vec![252],
        // 254
        vec![254],
        // 0
        vec![0],
        // 0
        vec![0],
        // 0
        vec![0],
        // 3
        vec![3],
        // 1
        vec![1],
    ];
    kani::concrete_playback_run(concrete_vals, vk_c14_dispatch_and);
}

/// Test generated for harness `interpreter::handlers::logical::vk_c14::vk_c14_dispatch_and` 
///
/// Check for `assertion`: "assertion failed: c == a_after"

#[test]
fn kani_concrete_playback_vk_c14_dispatch_and_1793264715898253857() {
    let concrete_vals: Vec<Vec<u8>> = vec![
        // 252
        vec![252],
        // 254
        vec![254],
        // 0
        vec![0],
        // 0
        vec![0],
        // 1
        vec![1],
        // 3
        vec![3],
        // 1
        vec![1],
    ];
    kani::concrete_playback_run(concrete_vals, vk_c14_dispatch_and);
}

