// Counterexample for property C06, harness vk_c06_plus_I_I
// bounds: every valid INTEGER x INTEGER pair (full width)
// functions: rusty_variant::Variant::plus
// failed check: assertion failed: vk_valid(&r)
//   assertion failed: vk_valid(&r) at rusty_variant/src/variant.rs:1678:17 in function variant::vk_c06::vk_c06_plus_I_I
// native replay: dev=True release=True dev/kani_concrete_playback_vk_c06_plus_I_I_9488850135434045752: panicked at rusty_variant/src/variant.rs:1678:17: assertion failed: vk_valid(&r); release/kani_concrete_playback_vk_c06_plus_I_I_9488850135434045752: panicked at rusty_variant/src/variant.rs:1678:17: assertion failed: vk_valid(&r)
// Replay: ./vk replay /verif/replays/C06-vk_c06_plus_I_I.rs   (re-injects the harness module below into a scratch copy of /repo,
//   adds this unit test and runs `cargo kani playback`).
// vk-meta: {"property": "C06", "harness": "vk_c06_plus_I_I", "file": "rusty_variant/src/variant.rs", "crate": "rusty_variant", "module": "vk_c06"}

/// Test generated for harness `variant::vk_c06::vk_c06_plus_I_I` 
///
/// Check for `assertion`: "assertion failed: vk_valid(&r)"

#[test]
fn kani_concrete_playback_vk_c06_plus_I_I_9488850135434045752() {
    let concrete_vals: Vec<Vec<u8>> = vec![
        // -32768
        vec![0, 128],
        // -32768
        vec![0, 128],
    ];
    kani::concrete_playback_run(concrete_vals, vk_c06_plus_I_I);
}

/// Test generated for harness `variant::vk_c06::vk_c06_plus_I_I` 
///
/// Check for `cover`: "vk_reached"

#[test]
fn kani_concrete_playback_vk_c06_plus_I_I_16764337948997689942() {
    let concrete_vals: Vec<Vec<u8>> = vec![
        // -1
        vec![255, 255],
        // -1
        vec![255, 255],
    ];
    kani::concrete_playback_run(concrete_vals, vk_c06_plus_I_I);
}

