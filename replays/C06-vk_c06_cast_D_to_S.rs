// Counterexample for property C06, harness vk_c06_cast_D_to_S
// bounds: every valid DOUBLE value (full width)
// functions: rusty_linter::core::CastVariant::cast, rusty_linter::core::QBNumberCast::try_cast
// failed check: assertion failed: vk_c06::vk_valid(&r)
//   assertion failed: vk_c06::vk_valid(&r) at rusty_linter/src/core/qb_casting.rs:781:17 in function core::qb_casting::vk_c06::vk_c06_cast_D_to_S
// native replay: dev=True release=True dev/kani_concrete_playback_vk_c06_cast_D_to_S_9904091652327196809: panicked at rusty_linter/src/core/qb_casting.rs:781:17: assertion failed: vk_c06::vk_valid(&r); release/kani_concrete_playback_vk_c06_cast_D_to_S_9904091652327196809: panicked at rusty_linter/src/core/qb_casting.rs:781:17: assertion failed: vk_c06::vk_valid(&r)
// Replay: ./vk replay /verif/replays/C06-vk_c06_cast_D_to_S.rs   (re-injects the harness module below into a scratch copy of /repo,
//   adds this unit test and runs `cargo kani playback`).
// vk-meta: {"property": "C06", "harness": "vk_c06_cast_D_to_S", "file": "rusty_linter/src/core/qb_casting.rs", "crate": "rusty_linter", "module": "vk_c06"}

/// Test generated for harness `core::qb_casting::vk_c06::vk_c06_cast_D_to_S` 
///
/// Check for `assertion`: "assertion failed: vk_c06::vk_valid(&r)"

#[test]
fn kani_concrete_playback_vk_c06_cast_D_to_S_9904091652327196809() {
    let concrete_vals: Vec<Vec<u8>> = vec![
        // -1.797693e+308
        vec![0, 0, 0, 240, 255, 255, 239, 255],
    ];
    kani::concrete_playback_run(concrete_vals, vk_c06_cast_D_to_S);
}

/// Test generated for harness `core::qb_casting::vk_c06::vk_c06_cast_D_to_S` 
///
/// Check for `cover`: "vk_reached"

#[test]
fn kani_concrete_playback_vk_c06_cast_D_to_S_15096876296017389625() {
    let concrete_vals: Vec<Vec<u8>> = vec![
        // -0
        vec![0, 0, 0, 0, 0, 0, 0, 128],
    ];
    kani::concrete_playback_run(concrete_vals, vk_c06_cast_D_to_S);
}

