// Counterexample for property C06, harness vk_c06_cast_S_to_L
// bounds: every valid SINGLE value (full width)
// functions: rusty_linter::core::CastVariant::cast, rusty_linter::core::QBNumberCast::try_cast
// failed check: assertion failed: vk_c06::vk_valid(&r)
//   assertion failed: vk_c06::vk_valid(&r) at rusty_linter/src/core/qb_casting.rs:696:17 in function core::qb_casting::vk_c06::vk_c06_cast_S_to_L
// native replay: dev=True release=True dev/kani_concrete_playback_vk_c06_cast_S_to_L_13737175219308410336: panicked at rusty_linter/src/core/qb_casting.rs:696:17: assertion failed: vk_c06::vk_valid(&r); release/kani_concrete_playback_vk_c06_cast_S_to_L_13737175219308410336: panicked at rusty_linter/src/core/qb_casting.rs:696:17: assertion failed: vk_c06::vk_valid(&r)
// Replay: ./vk replay /verif/replays/C06-vk_c06_cast_S_to_L.rs   (re-injects the harness module below into a scratch copy of /repo,
//   adds this unit test and runs `cargo kani playback`).
// vk-meta: {"property": "C06", "harness": "vk_c06_cast_S_to_L", "file": "rusty_linter/src/core/qb_casting.rs", "crate": "rusty_linter", "module": "vk_c06"}

/// Test generated for harness `core::qb_casting::vk_c06::vk_c06_cast_S_to_L` 
///
/// Check for `assertion`: "assertion failed: vk_c06::vk_valid(&r)"

#[test]
fn kani_concrete_playback_vk_c06_cast_S_to_L_13737175219308410336() {
    let concrete_vals: Vec<Vec<u8>> = vec![
        // 2.147484e+9
        vec![0, 0, 0, 79],
    ];
    kani::concrete_playback_run(concrete_vals, vk_c06_cast_S_to_L);
}

/// Test generated for harness `core::qb_casting::vk_c06::vk_c06_cast_S_to_L` 
///
/// Check for `cover`: "vk_reached"

#[test]
fn kani_concrete_playback_vk_c06_cast_S_to_L_13243543629122866562() {
    let concrete_vals: Vec<Vec<u8>> = vec![
        // -2
        vec![255, 255, 255, 191],
    ];
    kani::concrete_playback_run(concrete_vals, vk_c06_cast_S_to_L);
}

