// Counterexample for property C11, harness vk_c11_position_round_trip
// bounds: every row and column (full u32 width)
// functions: rusty_common::Position::new, rusty_common::Position::row, rusty_common::Position::col, rusty_common::Position::inc_col, rusty_common::Position::inc_row
// failed check: assertion failed: row > 0
//   assertion failed: row > 0 at rusty_common/src/position.rs:10:9 in function position::Position::new
//   assertion failed: col > 0 at rusty_common/src/position.rs:11:9 in function position::Position::new
// native replay: dev=True release=False dev/kani_concrete_playback_vk_c11_position_round_trip_13184282544968921617: panicked at rusty_common/src/position.rs:10:9: assertion failed: row > 0; dev/kani_concrete_playback_vk_c11_position_round_trip_10268466472244226837: panicked at rusty_common/src/position.rs:11:9: assertion failed: col > 0; dev/kani_concrete_playback_vk_c11_position_round_trip_6923703551099421293: passes natively; release/kani_concrete_playback_vk_c11_position_round_trip_13184282544968921617: passes natively; release/kani_concrete_playback_vk_c11_position_round_trip_10268466472244226837: passes natively; release/kani_concrete_playback_vk_c11_position_round_trip_6923703551099421293: passes natively
// Replay: ./vk replay /verif/replays/C11-vk_c11_position_round_trip.rs   (re-injects the harness module below into a scratch copy of /repo,
//   adds this unit test and runs `cargo kani playback`).
// vk-meta: {"property": "C11", "harness": "vk_c11_position_round_trip", "file": "rusty_common/src/position.rs", "crate": "rusty_common", "module": "vk_c11"}

/// Test generated for harness `position::vk_c11::vk_c11_position_round_trip` 
///
/// Check for `assertion`: "assertion failed: row > 0"

#[test]
fn kani_concrete_playback_vk_c11_position_round_trip_13184282544968921617() {
    let concrete_vals: Vec<Vec<u8>> = vec![
        // 4294967199
        vec![159, 255, 255, 255],
        // 4294967269
        vec![229, 255, 255, 255],
        // 0
        vec![0, 0, 0, 0],
        // 4294967295
        vec![255, 255, 255, 255],
    ];
    kani::concrete_playback_run(concrete_vals, vk_c11_position_round_trip);
}

/// Test generated for harness `position::vk_c11::vk_c11_position_round_trip` 
///
/// Check for `assertion`: "assertion failed: col > 0"

#[test]
fn kani_concrete_playback_vk_c11_position_round_trip_10268466472244226837() {
    let concrete_vals: Vec<Vec<u8>> = vec![
        // 4294967199
        vec![159, 255, 255, 255],
        // 4294967269
        vec![229, 255, 255, 255],
        // 1
        vec![1, 0, 0, 0],
        // 0
        vec![0, 0, 0, 0],
    ];
    kani::concrete_playback_run(concrete_vals, vk_c11_position_round_trip);
}

/// Test generated for harness `position::vk_c11::vk_c11_position_round_trip` 
///
/// Check for `cover`: "vk_reached"

#[test]
fn kani_concrete_playback_vk_c11_position_round_trip_6923703551099421293() {
    let concrete_vals: Vec<Vec<u8>> = vec![
        // 2147483647
        vec![255, 255, 255, 127],
        // 2147483647
        vec![255, 255, 255, 127],
        // 2147483647
        vec![255, 255, 255, 127],
        // 4294967295
        vec![255, 255, 255, 255],
    ];
    kani::concrete_playback_run(concrete_vals, vk_c11_position_round_trip);
}

