// Counterexample for property C19, harness vk_c19_mkd_int_bits_e64
// bounds: x = 1.m * 2^64, all 2^52 mantissas; unwind 68 (checked)
// functions: rusty_variant::bits::f64_int_bits
// failed check: assertion failed: got.len() == 64
//   assertion failed: got.len() == 64 at rusty_variant/src/bits.rs:2312:17 in function bits::vk_c19::vk_c19_mkd_int_bits_e64
// native replay: dev=True release=True dev/kani_concrete_playback_vk_c19_mkd_int_bits_e64_7904737410727150769: panicked at rusty_variant/src/bits.rs:2312:17: assertion failed: got.len() == 64; release/kani_concrete_playback_vk_c19_mkd_int_bits_e64_7904737410727150769: panicked at rusty_variant/src/bits.rs:2312:17: assertion failed: got.len() == 64
// BASIC program reaching the failing call:
//   PRINT CVD(MKD$(1.6D+20))
// Replay: ./vk replay /verif/replays/C19-vk_c19_mkd_int_bits_e64.rs   (re-injects the harness module below into a scratch copy of /repo,
//   adds this unit test and runs `cargo kani playback`).
// vk-meta: {"property": "C19", "harness": "vk_c19_mkd_int_bits_e64", "file": "rusty_variant/src/bits.rs", "crate": "rusty_variant", "module": "vk_c19"}

/// Test generated for harness `bits::vk_c19::vk_c19_mkd_int_bits_e64` 
///
/// Check for `assertion`: "assertion failed: got.len() == 64"

#[test]
fn kani_concrete_playback_vk_c19_mkd_int_bits_e64_7904737410727150769() {
    let concrete_vals: Vec<Vec<u8>> = vec![
        // 4503599627370495ul
        vec![255, 255, 255, 255, 255, 255, 15, 0],
    ];
    kani::concrete_playback_run(concrete_vals, vk_c19_mkd_int_bits_e64);
}

