// Counterexample for property C10, harness vk_c10_flip_binary_table
// bounds: all 13 x 13 operator pairs
// functions: rusty_parser::expr::types::ExpressionTrait::should_flip_binary, rusty_parser::Expression::flip_multiply_plus, rusty_parser::Expression::flip_plus_minus, rusty_parser::Expression::flip_multiply_divide, rusty_parser::Operator::is_arithmetic, rusty_parser::Operator::is_relational, rusty_parser::Operator::is_binary
// failed check: assertion failed: flip
//   assertion failed: flip at rusty_parser/src/expr/types.rs:485:21 in function expr::types::vk_c10::vk_c10_flip_binary_table
//   assertion failed: flip at rusty_parser/src/expr/types.rs:491:21 in function expr::types::vk_c10::vk_c10_flip_binary_table
// native replay: dev=True release=True dev/kani_concrete_playback_vk_c10_flip_binary_table_4384515646587271264: panicked at rusty_parser/src/expr/types.rs:485:21: assertion failed: flip; dev/kani_concrete_playback_vk_c10_flip_binary_table_11793614480696704741: panicked at rusty_parser/src/expr/types.rs:491:21: assertion failed: flip; release/kani_concrete_playback_vk_c10_flip_binary_table_4384515646587271264: panicked at rusty_parser/src/expr/types.rs:485:21: assertion failed: flip; release/kani_concrete_playback_vk_c10_flip_binary_table_11793614480696704741: panicked at rusty_parser/src/expr/types.rs:491:21: assertion failed: flip
// BASIC program reaching the failing call:
//   PRINT 2 * 7 MOD 4   ' 2 in QBasic
//   PRINT 3 > 2 > 1     ' 0 in QBasic
//   PRINT 20 MOD 12 MOD 5  ' 3 in QBasic
// Replay: ./vk replay /verif/replays/C10-vk_c10_flip_binary_table.rs   (re-injects the harness module below into a scratch copy of /repo,
//   adds this unit test and runs `cargo kani playback`).
// vk-meta: {"property": "C10", "harness": "vk_c10_flip_binary_table", "file": "rusty_parser/src/expr/types.rs", "crate": "rusty_parser", "module": "vk_c10"}

/// Test generated for harness `expr::types::vk_c10::vk_c10_flip_binary_table` 
///
/// Check for `assertion`: "assertion failed: flip"

#[test]
fn kani_concrete_playback_vk_c10_flip_binary_table_4384515646587271264() {
    let concrete_vals: Vec<Vec<u8>> = vec![
        // 8
        vec![8],
        // 10
        vec![10],
    ];
    kani::concrete_playback_run(concrete_vals, vk_c10_flip_binary_table);
}

/// Test generated for harness `expr::types::vk_c10::vk_c10_flip_binary_table` 
///
/// Check for `assertion`: "assertion failed: flip"

#[test]
fn kani_concrete_playback_vk_c10_flip_binary_table_11793614480696704741() {
    let concrete_vals: Vec<Vec<u8>> = vec![
        // 0
        vec![0],
        // 0
        vec![0],
    ];
    kani::concrete_playback_run(concrete_vals, vk_c10_flip_binary_table);
}

/// Test generated for harness `expr::types::vk_c10::vk_c10_flip_binary_table` 
///
/// Check for `cover`: "vk_reached"

#[test]
fn kani_concrete_playback_vk_c10_flip_binary_table_63419815050649381() {
    let concrete_vals: Vec<Vec<u8>> = vec![
        // 0
        vec![0],
        // 6
        vec![6],
    ];
    kani::concrete_playback_run(concrete_vals, vk_c10_flip_binary_table);
}

