// Counterexample for property C06, harness vk_c06_multiply_S_S
// bounds: every valid SINGLE x SINGLE pair (full width)
// functions: rusty_variant::Variant::multiply
// failed check: assertion failed: vk_valid(&r)
//   assertion failed: vk_valid(&r) at rusty_variant/src/variant.rs:2488:17 in function variant::vk_c06::vk_c06_multiply_S_S
// native replay: dev=True release=True dev/kani_concrete_playback_vk_c06_multiply_S_S_11073917513461551441: panicked at rusty_variant/src/variant.rs:2488:17: assertion failed: vk_valid(&r); release/kani_concrete_playback_vk_c06_multiply_S_S_11073917513461551441: panicked at rusty_variant/src/variant.rs:2488:17: assertion failed: vk_valid(&r)
// Replay: ./vk replay /verif/replays/C06-vk_c06_multiply_S_S.rs   (re-injects the harness module below into a scratch copy of /repo,
//   adds this unit test and runs `cargo kani playback`).
// vk-meta: {"property": "C06", "harness": "vk_c06_multiply_S_S", "file": "rusty_variant/src/variant.rs", "crate": "rusty_variant", "module": "vk_c06"}

/// Test generated for harness `variant::vk_c06::vk_c06_multiply_S_S` 
///
/// Check for `assertion`: "assertion failed: vk_valid(&r)"

#[test]
fn kani_concrete_playback_vk_c06_multiply_S_S_11073917513461551441() {
    let concrete_vals: Vec<Vec<u8>> = vec![
        // 1.701412e+38
        vec![0, 0, 0, 127],
        // -2
        vec![0, 0, 0, 192],
    ];
    kani::concrete_playback_run(concrete_vals, vk_c06_multiply_S_S);
}

/// Test generated for harness `variant::vk_c06::vk_c06_multiply_S_S` 
///
/// Check for `cover`: "vk_reached"

#[test]
fn kani_concrete_playback_vk_c06_multiply_S_S_11754972176628342775() {
    let concrete_vals: Vec<Vec<u8>> = vec![
        // 0
        vec![0, 0, 0, 0],
        // -0
        vec![0, 0, 0, 128],
    ];
    kani::concrete_playback_run(concrete_vals, vk_c06_multiply_S_S);
}

