// Counterexample for property C19, harness vk_c19_cvd_subnormal
// bounds: every subnormal bit pattern (exponent field 0, any non-zero mantissa, both signs)
// functions: rusty_variant::bytes_to_f64
// failed check: assertion failed: got == want
//   assertion failed: got == want at rusty_variant/src/bits.rs:852:17 in function bits::vk_c19::vk_c19_cvd_subnormal
// native replay: dev=True release=True dev/kani_concrete_playback_vk_c19_cvd_subnormal_16900691803709742766: panicked at rusty_variant/src/bits.rs:852:17: assertion failed: got == want; release/kani_concrete_playback_vk_c19_cvd_subnormal_16900691803709742766: panicked at rusty_variant/src/bits.rs:852:17: assertion failed: got == want
// BASIC program reaching the failing call:
//   X# = 1: H# = .5: FOR I% = 1 TO 1030: X# = X# * H#: NEXT   ' X# = 2^-1030, a subnormal
//   Y# = CVD(MKD$(X#))   ' 0 instead of X# (MKD$ encodes every subnormal as zero; CVD decodes a subnormal pattern as 1.m * 2^-1023)
// Replay: ./vk replay /verif/replays/C19-vk_c19_cvd_subnormal.rs   (re-injects the harness module below into a scratch copy of /repo,
//   adds this unit test and runs `cargo kani playback`).
// vk-meta: {"property": "C19", "harness": "vk_c19_cvd_subnormal", "file": "rusty_variant/src/bits.rs", "crate": "rusty_variant", "module": "vk_c19"}

/// Test generated for harness `bits::vk_c19::vk_c19_cvd_subnormal` 
///
/// Check for `assertion`: "assertion failed: got == want"
///
/// # Warning
///
/// Concrete playback tests combined with stubs or contracts is highly
/// experimental, and subject to change.
///
/// The original harness has stubs which are not applied to this test.
/// This may cause a mismatch of non-deterministic values if the stub
/// creates any non-deterministic value.
/// The execution path may also differ, which can be used to refine the stub
/// logic.

#[test]
fn kani_concrete_playback_vk_c19_cvd_subnormal_16900691803709742766() {
    let concrete_vals: Vec<Vec<u8>> = vec![
        // 1ul
        vec![1, 0, 0, 0, 0, 0, 0, 0],
        // 0
        vec![0],
    ];
    kani::concrete_playback_run(concrete_vals, vk_c19_cvd_subnormal);
}

