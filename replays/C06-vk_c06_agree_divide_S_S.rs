// Counterexample for property C06, harness vk_c06_agree_divide_S_S
// bounds: every valid SINGLE x SINGLE pair (full width)
// functions: rusty_linter::core::casting::cast_binary_op_q, rusty_variant::Variant::divide
// failed check: assertion failed: t == 2
//   assertion failed: t == 2 at rusty_linter/src/core/casting.rs:1538:56 in function core::casting::vk_c06::vk_c06_agree_divide_S_S
// native replay: dev=True release=True dev/kani_concrete_playback_vk_c06_agree_divide_S_S_1299751901443167593: panicked at rusty_linter/src/core/casting.rs:1538:56: assertion failed: t == 2; release/kani_concrete_playback_vk_c06_agree_divide_S_S_1299751901443167593: panicked at rusty_linter/src/core/casting.rs:1538:56: assertion failed: t == 2
// BASIC program reaching the failing call:
//   A% = 1 / 3
//   PRINT A%   ' prints .3333333: the static type of 1 / 3 is INTEGER, so no Cast is emitted
// Replay: ./vk replay /verif/replays/C06-vk_c06_agree_divide_S_S.rs   (re-injects the harness module below into a scratch copy of /repo,
//   adds this unit test and runs `cargo kani playback`).
// vk-meta: {"property": "C06", "harness": "vk_c06_agree_divide_S_S", "file": "rusty_linter/src/core/casting.rs", "crate": "rusty_linter", "module": "vk_c06"}

/// Test generated for harness `core::casting::vk_c06::vk_c06_agree_divide_S_S` 
///
/// Check for `assertion`: "assertion failed: t == 2"

#[test]
fn kani_concrete_playback_vk_c06_agree_divide_S_S_1299751901443167593() {
    let concrete_vals: Vec<Vec<u8>> = vec![
        // 2.156003e+9
        vec![0, 130, 0, 79],
        // 4
        vec![0, 0, 128, 64],
    ];
    kani::concrete_playback_run(concrete_vals, vk_c06_agree_divide_S_S);
}

