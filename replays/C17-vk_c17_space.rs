// Counterexample for property C17, harness vk_c17_space
// bounds: every INTEGER count -32768..6
// functions: rusty_basic::interpreter::built_ins::space::run (body, sliced)
// failed check: assertion failed: false
//   assertion failed: false at rusty_basic/src/interpreter/built_ins/space.rs:130:141 in function interpreter::built_ins::space::vk_c17::vk_c17_space
// native replay: dev=True release=True dev/kani_concrete_playback_vk_c17_space_4258480995124349953: panicked at rusty_basic/src/interpreter/built_ins/space.rs:130:141: assertion failed: false; release/kani_concrete_playback_vk_c17_space_4258480995124349953: panicked at rusty_basic/src/interpreter/built_ins/space.rs:130:141: assertion failed: false
// BASIC program reaching the failing call:
//   PRINT "[" + SPACE$(-1) + "]"
// Replay: ./vk replay /verif/replays/C17-vk_c17_space.rs   (re-injects the harness module below into a scratch copy of /repo,
//   adds this unit test and runs `cargo kani playback`).
// vk-meta: {"property": "C17", "harness": "vk_c17_space", "file": "rusty_basic/src/interpreter/built_ins/space.rs", "crate": "rusty_basic", "module": "vk_c17"}

/// Test generated for harness `interpreter::built_ins::space::vk_c17::vk_c17_space` 
///
/// Check for `assertion`: "assertion failed: false"

#[test]
fn kani_concrete_playback_vk_c17_space_4258480995124349953() {
    let concrete_vals: Vec<Vec<u8>> = vec![
        // -32768
        vec![0, 128],
    ];
    kani::concrete_playback_run(concrete_vals, vk_c17_space);
}

