// Counterexample for property C08, harness vk_c08_instr_total_hay1_needle1
// bounds: every haystack of 1 and needle of 1 letters over {a, b, U+00E9}; any start 1..32767
// functions: rusty_basic::interpreter::built_ins::instr::do_instr
// failed check: called `Option::unwrap()` on a `None` value
//   called `Option::unwrap()` on a `None` value at ../../../../home/runner/.rustup/toolchains/nightly-2026-08-21-x86_64-unknown-linux-gnu/lib/rustlib/src/rust/library/core/src/option.rs:2248:5 in function std::option::unwrap_failed
// native replay: dev=True release=True dev/kani_concrete_playback_vk_c08_instr_total_hay1_needle1_4640167866991698102: panicked at rusty_basic/src/interpreter/built_ins/instr.rs:34:54: called `Option::unwrap()` on a `None` value; release/kani_concrete_playback_vk_c08_instr_total_hay1_needle1_4640167866991698102: panicked at rusty_basic/src/interpreter/built_ins/instr.rs:34:54: called `Option::unwrap()` on a `None` value
// BASIC program reaching the failing call:
//   PRINT INSTR("é", "a")
// Replay: ./vk replay /verif/replays/C08-vk_c08_instr_total_hay1_needle1.rs   (re-injects the harness module below into a scratch copy of /repo,
//   adds this unit test and runs `cargo kani playback`).
// vk-meta: {"property": "C08", "harness": "vk_c08_instr_total_hay1_needle1", "file": "rusty_basic/src/interpreter/built_ins/instr.rs", "crate": "rusty_basic", "module": "vk_c08"}

/// Test generated for harness `interpreter::built_ins::instr::vk_c08::vk_c08_instr_total_hay1_needle1` 
///
/// Check for `assertion`: "called `Option::unwrap()` on a `None` value"

#[test]
fn kani_concrete_playback_vk_c08_instr_total_hay1_needle1_4640167866991698102() {
    let concrete_vals: Vec<Vec<u8>> = vec![
        // 2
        vec![2],
        // 0
        vec![0],
        // 1ul
        vec![1, 0, 0, 0, 0, 0, 0, 0],
    ];
    kani::concrete_playback_run(concrete_vals, vk_c08_instr_total_hay1_needle1);
}

/// Test generated for harness `interpreter::built_ins::instr::vk_c08::vk_c08_instr_total_hay1_needle1` 
///
/// Check for `cover`: "vk_reached"

#[test]
fn kani_concrete_playback_vk_c08_instr_total_hay1_needle1_115073701275844975() {
    let concrete_vals: Vec<Vec<u8>> = vec![
        // 2
        vec![2],
        // 2
        vec![2],
        // 1ul
        vec![1, 0, 0, 0, 0, 0, 0, 0],
    ];
    kani::concrete_playback_run(concrete_vals, vk_c08_instr_total_hay1_needle1);
}

