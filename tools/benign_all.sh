#!/bin/bash
# runs the quick checks named per benign (behaviour-preserving) refactoring; every line must say exit=0
cd /verif
run() { SEEDBASE=/verif/benign TIER=quick ./tools/seed_run.sh "$@" | grep "^seed="; }
run R1 C06 C12 C19 C08 C17
run R2 C19 C04 C10 C12
run R3 C20
run R4 C09 C11 C10 C13 C16 C17 C08 C05
