#!/usr/bin/env python3
"""Writes seeded/<name>/meta.json and the table of DESIGN.md section 9 from the records below.
`results` are filled in from tools/seed_run.sh runs: check -> (exit code, violation lines, instances that failed)."""
import json, os

HERE = os.path.dirname(os.path.dirname(os.path.abspath(__file__)))

SEEDS = [
 # name, property, change, needs, demo, results{check: verdict text}
 ("C04-3d-stride", "C04", "VArray::abs_index: `multiplier *= extent` became `multiplier = extent` (dropped `*`)",
  "a 3-dimensional array whose last dimension has more than one element, and two colliding index tuples, e.g. A(2,1,1) and A(1,1,3) of DIM A(1 TO 2, 1 TO 2, 1 TO 3)",
  "run_demo.sh (demo.bas vs expected.txt)"),
 ("C05-return-to-next-statement", "C05", "Interpreter::interpret_one, Instruction::Return: a plain RETURN continues at find_next(gosub address) instead of address + 1",
  "a GOSUB that is the last statement of an IF/ELSEIF branch followed by ELSE/ELSEIF (or of a CASE block followed by another CASE): the unmarked jump to the end of the block is skipped",
  "run_demo.sh (demo.bas vs demo.expected)"),
 ("C06-double-to-integer-truncated-check", "C06", "QBNumberCast<i32> for f64: the range check tests the truncated value, the stored value is the rounded one",
  "a DOUBLE in [32767.5, 32768) or (-32769, -32768.5] stored into an INTEGER: D# = 32767.5: A% = D#",
  "run_demo.sh (demo.bas vs expected.txt), demo_test.rs"),
 ("C08-instr-start-past-end", "C08", "do_instr rewritten with slice::windows on hay[start-1..]: panics when start >= LEN + 2",
  "three-argument INSTR with a start two or more past the end: PRINT INSTR(5, \"abc\", \"c\")",
  "demo.bas vs demo.expected.txt"),
 ("C09-hash-folds-first-32-bytes", "C09", "hash_str copies the name into a 32-byte buffer and upper-cases only that: bytes beyond the 32nd are hashed raw",
  "an identifier of 33-40 characters used in two spellings that differ in letter case at position 33 or later",
  "run_demo.sh (demo_recased.bas, demo2_recased.bas)"),
 ("C10-mod-not-arithmetic", "C10", "Operator::is_arithmetic rewritten as is_plus_or_minus() || is_multiply_or_divide(): MOD is no longer arithmetic",
  "an unparenthesised MOD whose right operand is followed by a relational operator, AND or OR: PRINT 9 MOD 5 > 1",
  "run_demo.sh (demo.bas vs demo.expected)"),
 ("C11-popstack-removes-outermost", "C11", "Interpreter::interpret_one, Instruction::PopStack: stacktrace.remove(0) became stacktrace.pop()",
  "a run-time error at call depth >= 1 after some other call made from the same or an enclosing activation has returned",
  "run_demo.sh (demo.bas, stderr vs demo.expected_stderr)"),
 ("C12-long-absorbs-string", "C12", "bigger_numeric_type: the LONG arm's `_ => None` merged into `_ => Some(LONG)`, so LONG {+,-,*,/} string is accepted",
  "a LONG left operand of + - * / with a string right operand: total& = count& * unit$",
  "run_demo.sh (demo_reject.bas, demo_nested.bas)"),
 ("C13-range-drops-last-letter", "C13", "TypeResolverImpl::fill_ranges uses ranges[x..y].fill(q) (half open); set() writes single letters directly",
  "a range-form DEFtype and a bare name starting with the last letter of the range: DEFINT A-C: C = 2.6",
  "run_demo.sh (demo.bas vs expected.txt)"),
 ("C16-print-end-keeps-flag", "C16", "PrintState::print_end no longer clears should_skip_new_line",
  "a PRINT ending in ; or , followed by a PRINT without items (on the same or another device)",
  "run_demo.sh (demo.bas vs demo.expected, exact CR LF bytes)"),
 ("C17-instr-last-position", "C17", "do_instr: new early exit `else if start >= hay.len() { Ok(0) }` (should be >)",
  "INSTR with start = LEN(s) and a one-character needle that is the last character: INSTR(3, \"hay\", \"y\")",
  "run_demo.sh (demo.bas vs demo.expected)"),
 ("C19-not-via-negate", "C19", "Variant::unary_not for INTEGER/LONG computed as negate()?.minus(1): NOT -32768 raises Overflow",
  "exactly the operand -32768 (and -2147483648 for LONG)",
  "run_demo.sh (demo.bas vs demo.expected)"),
 ("C20-optional-surround-swallows-fatal", "C20", "SurroundParser::parse: the right-boundary step rewritten as a match that drops `err.is_fatal() ||`",
  "SurroundMode::Optional, content parsed, right boundary fails fatally",
  "c20_surround_demo.rs (integration test for rusty_pc/tests)"),
 # ---- round 2
 ("C04-byref-array-element-fixlength", "C04", "InstructionGenerator::generate_fix_string_length matches only Variable/Property expressions: no FixLength is emitted when a STRING*n ARRAY ELEMENT is written back after a by-reference call",
  "an element of a STRING * n array passed by reference to a SUB/FUNCTION (or INPUT / LINE INPUT) that stores a string of another length",
  "run_demo.sh (demo.bas vs expected.txt)"),
 ("C05-find-current-previous-statement", "C05", "NearestStatementFinder::find_current: the Ok(_) => address arm merged away; always returns statement_addresses[index - 1]",
  "an error raised by the FIRST instruction of a statement (RETURN without GOSUB, RESUME without error) under ON ERROR GOTO with a handler ending in a bare RESUME",
  "run_demo.sh (demo.bas vs expected.txt)"),
 ("C06-f32-quotient-long-bound", "C06", "FitToType for f32 decides the tag in f32: `rounded <= MAX_LONG as f32` admits 2147483648 as VLong",
  "a division without DOUBLE operand whose quotient is exactly 2147483648 stored into a LONG: X! = 65536: X! = X! * 65536: B& = X! / 2",
  "run_demo.sh (demo.bas vs expected.txt)"),
 ("C06-long-op-single-typed-long", "C06", "bigger_numeric_type: LONG op SINGLE is statically LONG (copy-paste of the arm above), the run-time result is SINGLE and no Cast is emitted",
  "a LONG left operand, SINGLE right operand of + - * / stored into a LONG target: x& = l& * s! with s! = .5",
  "run_demo.sh (demo.bas vs expected.txt)"),
 ("C08-left-byte-slice", "C08", "LEFT$: s.chars().take(count).collect() became s[..count.min(s.len())].to_owned(): panics inside a multi-byte character",
  "LEFT$ of a string containing a character >= 128 with a count that falls inside it: LEFT$(CHR$(200) + \"bc\", 1)",
  "run_demo.sh (demo.bas vs demo.expected)"),
 ("C09-cmp-does-not-fold-z", "C09", "cmp_bytes folds with a helper whose range check is `byte < b'z'`: lower-case z is not folded",
  "an identifier containing Z used once with z and once with Z: SIZE% = 42: PRINT size%",
  "run_demo.sh (prog_upper.bas, prog_mixed.bas vs expected.txt)"),
 ("C10-unary-minus-min-literal", "C10", "Expression::unary_minus uses checked_neg on the i32/i64 payload: the widening branch for -32768 / -2147483648 is dead",
  "a unary minus directly before a hex/octal literal equal to the 16- or 32-bit minimum: A% = -&H8000",
  "run_demo.sh (demo.bas vs expected.txt)"),
 ("C11-cr-cr-counts-once", "C11", "create_row_col_view: the look-ahead for the CR of a CRLF pair became is_eol(next): a CR followed by a CR does not advance the row",
  "bare-CR or mixed line endings with a blank line (CR directly followed by CR or CRLF) before the reported position",
  "run_demo.sh (three programs with CR / mixed endings)"),
 ("C12-mod-accepts-strings", "C12", "cast_binary_op_q: Modulo moved to the relational arm (left.can_cast_to(right)): string MOD string is accepted",
  "MOD with two string operands: PRINT A$ MOD B$",
  "run_demo.sh (demo1.bas, demo2.bas)"),
 ("C13-lowercase-deftype-ignored", "C13", "TypeResolverImpl::fill_ranges compares the raw (not case-folded) range ends against 'A'..='Z'",
  "a DEFtype statement written with lower-case letters: DEFINT a-c",
  "run_demo.sh (demo.bas, demo_numeric.bas)"),
 ("C16-print-cr-only-fast-path", "C16", "WritePrinter::print: early return `if !s.contains('\\n') { return self.print_as_is(s) }`",
  "a printed string containing CR but no LF, followed by a comma: PRINT \"ab\" + CHR$(13) + \"cd\", \"z\"",
  "run_demo.sh (stdout and file output, byte for byte)"),
 ("C17-mid-start-equals-len", "C17", "do_mid without count: `if start >= s.len() { \"\" }` compares the 1-based start",
  "two-argument MID$ with start = LEN(s): MID$(\"hay\", 3)",
  "run_demo.sh (demo.bas vs expected.txt)"),
 ("C19-mkd-int-part-as-i32", "C19", "int_to_bits_vec! became a function taking i32: the integer part of the double is `trunc() as i32` (saturates at 2^31)",
  "MKD$ of a DOUBLE with magnitude >= 2147483648 (below 2^63 these encoded correctly before)",
  "run_demo.sh (demo.bas vs expected.txt)"),
 ("C20-many-swallows-fatal-after-success", "C20", "ManyParser::parse: the loop for the 2nd.. elements became `while let Ok(value) = ...`: a fatal error after a success ends the loop with Ok",
  "element outcomes Ok, ..., Ok, Fatal",
  "run_demo.sh (many_history.rs integration test)"),
 ("C20-or-no-rewind", "C20", "OrParser::parse no longer restores the input position before trying the next alternative",
  "a non-last alternative that fails softly AFTER consuming input (and_then with a soft-failing mapper, flatten, or a hand-written parser)",
  "run_demo.sh (demo_c20_choice.rs integration test)"),
 # ---- round 3: changes that only manifest beyond small sizes
 ("C04-dimension-size-through-u16", "C04", "VArray::abs_index rewritten over usize with `(ubound - lbound + 1) as u16`: a dimension of 65536 elements gets size 0",
  "a 2- or 3-dimensional array whose non-first dimension is declared exactly -32768 TO 32767",
  "run_demo.sh (demo.bas vs expected.txt)"),
 ("C10-max-long-literal-double", "C10", "process_dec: `u <= MAX_LONG as u32` became `<`: the literal 2147483647 is typed DOUBLE",
  "exactly the ten-digit decimal literal 2147483647 used in typed arithmetic: PRINT 2147483647 + 1",
  "run_demo.sh (demo.bas vs demo.expected)"),
 ("C11-position-fields-u16", "C11", "Position stores row and col as u16 (`row as u16`): rows / columns above 65535 wrap",
  "a diagnostic or call site beyond row 65535 (or column 65535 of one long line)",
  "run_demo.sh (gen_demo.py generates 70000-line programs)"),
 ("C13-defsng-z-skipped", "C13", "TypeResolverImpl tracks overridden letters in a 25-bit mask (A..Y): a DEFSNG range is skipped when none of its letters is recorded as overridden",
  "an earlier non-SINGLE DEFtype covering Z and a later DEFSNG whose only overridden letter is Z: DEFINT A-Z: DEFSNG Z",
  "run_demo.sh (demo.bas, control1.bas, control2.bas)"),
 ("C16-column-wraps-at-80", "C16", "WritePrinter::print_as_is: last_column = (last_column + len) % 80",
  "at least 80 characters on the current line of a device, followed by a comma",
  "run_demo.sh (demo.bas vs expected.txt)"),
 ("C17-mid-rest-clamped-255", "C17", "do_mid: an omitted length defaults to 255 and is clamped like an explicit one",
  "two-argument MID$ with more than 255 characters after the start position",
  "run_demo.sh (demo.bas vs expected.txt)"),
 ("C19-normalize-by-log2", "C19", "f64_abs_normalize_value computes the exponent as ceil(-log2(x)) instead of doubling in a loop",
  "a double below 0.25 within a few ulps below a power of two (all-ones mantissa): 0.25 - 2^-55",
  "run_demo.sh (demo.bas vs demo.expected)"),
 ("C20-one-of-binary-search", "C20", "one_of_p uses needles.binary_search(x) when there are more than 4 needles (nothing sorts them)",
  "one_of_p with 5 or more needles listed unsorted and an input element the binary search misses",
  "run_demo.sh (seed_c20_d_demo.rs integration test)"),
 # ---- round 4
 ("C05-resume-label-keeps-err", "C05", "Interpreter::interpret_one, Instruction::ResumeLabel: inlined `last_error_address.take()` no longer resets last_error_code",
  "an ON ERROR GOTO handler left with RESUME <label>, and ERR read afterwards",
  "run_demo.sh (demo.bas vs expected.txt)"),
 ("C06-negate-checked-neg", "C06", "Variant::negate guards with i32/i64::checked_neg instead of the BASIC minima: -(-32768) yields 32768 in an INTEGER",
  "unary minus on a non-literal INTEGER holding -32768 (or LONG holding -2147483648)",
  "run_demo.sh (demo.bas vs expected.txt)"),
 ("C08-handler-context-leaves-argument-state", "C08", "Context::push_error_handler_context drops only the innermost argument-collecting state (`while` became `if`)",
  "an error raised while evaluating an argument of a call that is itself an argument, inside a SUB, handled with RESUME NEXT; the SUB's return then panics",
  "run_demo.sh (demo.bas vs expected.txt)"),
 ("C09-whitespace-swallows-cr", "C09", "tokenizer is_whitespace became `ch.is_ascii_whitespace() && *ch != '\\n'`: a run of blanks swallows a following bare CR",
  "bare-CR line endings and a line ending in a blank or tab",
  "run_demo.sh (demo1.bas, demo2.bas in LF / CRLF / CR copies)"),
 ("C12-long-divide-long-mismatch", "C12", "Variant::divide: the VLong / VLong arm deleted, falls to TypeMismatch",
  "the / operator with two LONG operands at run time",
  "run_demo.sh (demo.bas vs expected.txt)"),
 ("C16-zone-boundary-no-padding", "C16", "move_to_next_print_zone computes the zone from col - 1: at a non-zero multiple of 14 the comma pads 0 blanks",
  "a comma when the current line holds exactly 14, 28, 42 ... characters",
  "run_demo.sh (demo.bas vs expected.txt)"),
 ("C19-or-skips-sign-bit", "C19", "BitVec bitor rewritten in place with a loop over 1..len: bit 15 is taken from the left operand only",
  "OR with a non-negative left and a negative right operand: 1 OR -2",
  "run_demo.sh (demo.bas vs demo.expected)"),
 ("C20-delimited-missing-soft-trailing", "C20", "DelimitedParser (allow missing): a `continue` after pushing a missing element skips `last_parsed = Delimiter`",
  "delimited_by_allow_missing on an input of delimiters only: the fatal trailing-delimiter error becomes a soft failure with the delimiters consumed",
  "run_demo.sh (delimited_missing_demo.rs integration test)"),
 # ---- round 5: two cooperating edits
 ("C06-float-to-integer-wraps-mod-2-32", "C06", "edit A: SINGLE/DOUBLE -> INTEGER delegates to `(round() as i64).try_cast()`; edit B: LONG -> INTEGER narrows with `as i32` before the range check",
  "a SINGLE or DOUBLE within +-32768 of a non-zero multiple of 2^32 (or beyond 2^63) converted to INTEGER: A% = 4294967301#",
  "run_demo.sh (demo.bas vs expected.txt); edit_a_only.diff / edit_b_only.diff are harmless alone"),
 ("C12-mid-length-argument-unchecked", "C12", "edit 1: new lint helper require_integer_arguments(from, to) with an exclusive upper bound; edit 2: MID$'s lint calls it as (1, 2) with the inclusive reading",
  "three-argument MID$ whose third argument is a string: MID$(t$, 8, n$)",
  "run_demo.sh (demo.bas vs expected.txt)"),
 ("C13-shared-compact-shadowed", "C13", "edit 1: Names helper get_shared_from_global skips the global scope when the bare name exists locally (sound for extended variables); edit 2: compact variables are routed through the same helper",
  "a DIM SHARED compact variable used in a subprogram that already mentioned the same base name with another suffix",
  "run_demo.sh (demo.bas vs expected.txt)"),
 ("C16-using-format-position-kept", "C16", "edit 1: PrintState::reset no longer clears the format string / index (moved into set_format_string); edit 2: set_format_string returns early when the format is unchanged",
  "two consecutive PRINT USING statements with equal format strings where the first leaves fields unused",
  "run_demo.sh (demo.bas vs expected.txt)"),
 ("C19-mkd-int-part-through-32-bit-vector", "C19", "site 1: From<i32> for BitVec becomes a macro also instantiated for (i64, 32 bits); site 2: f64_int_bits builds the integer part with BitVec::from(trunc() as i64)",
  "MKD$ of a DOUBLE with 2^32 <= |x| < 2^63",
  "run_demo.sh (demo.bas vs demo.expected)"),
 ("C20-and-then-err-maps-fatal", "C20", "edit 1: MapDecorator gains an overridable map_err hook (default = old dispatch); edit 2: AndThenErrParser overrides map_err instead of map_soft_error",
  "and_then_err around a parser that fails fatally, with a mapper that does not echo its argument",
  "run_demo.sh (c20_and_then_err_fatal.rs integration test)"),
 # ---- round 6 (second session): the kernels opened by source slicing, and what lies behind them ----
 ("C03-byref-writeback-lifo", "C03", "dequeue_from_return_stack pops the by-ref queue from the back and generate_un_stash_by_ref_args iterates the arguments in reverse: by-reference results are written back right to left",
  "one call whose by-reference arguments alias (the same variable, array element or record field twice) and a callee that leaves different values in them",
  "run_demo.sh (demo.bas vs expected.txt)"),
 ("C05-gosub-return-tail-call", "C05", "instruction generator, Visitor<Statements>: a GOSUB directly followed by a plain RETURN in the same block is emitted as GOTO ('tail call'), so one pending GOSUB vanishes from the history",
  "a GOSUB whose next statement is a bare RETURN, into a routine that leaves with RETURN <label> (the caller's frame is popped instead) - or the same pair with an empty GOSUB stack (error 3 reported at another row)",
  "run_demo.sh (demo.bas vs expected.txt)"),
 ("C08-fix-length-truncate-char-boundary", "C08", "string_utils::fix_length rewritten with String::truncate(end.min(len)) + extend(repeat_n(' ', ..)): truncate panics inside a two-byte character",
  "an assignment to a STRING * n (or a \\ \\ field of PRINT USING) of a text longer than n bytes with a character of code 128..255 straddling the cut",
  "run_demo.sh (demo.bas vs expected.txt)"),
 ("C11-stacktrace-dedup", "C11", "built-in errors are wrapped with with_err_at instead of with_stacktrace and ErrorEnvelope::appen_draining_stacktrace de-duplicates adjacent positions: repeated call sites disappear from the reported trace",
  "an untrapped run-time error raised while two or more consecutive active frames were entered from the same call statement (direct recursion two or more levels deep)",
  "run_demo.sh (demo.bas, stderr vs expected.txt)"),
 ("C17-instr-skip-partial-match", "C17", "do_instr: after a partial match of k bytes the search advances by max(k, 1) instead of 1 ('no need to look again at the bytes already compared')",
  "a needle of at least 3 characters that begins with a repeated prefix (aab, anas, issip) and a haystack with a failing partial match of >= 2 characters that overlaps the true first occurrence: INSTR(\"aaab\", \"aab\")",
  "run_demo.sh (demo.bas vs expected.txt)"),

 # ---- round 7 (second session, after the sliced kernels were built) ----
 ("C03-static-block-swap-remove", "C03", "Context::do_pop: memory_blocks.remove(i) became swap_remove(i) ('avoid shifting the tail on every return'); the loop that decrements the STATIC indices above i is unchanged",
  "two different STATIC subprograms entered for the first time during the same activation of an ordinary subprogram; that activation returns; one of the STATIC subprograms is called again",
  "run_demo.sh (demo.bas vs expected.txt)"),
 ("C04-single-element-dimension-unchecked", "C04", "VArray::abs_index rewritten as zip().rev() with a shortcut: a dimension of one element is skipped before its bounds check",
  "an array with a dimension of exactly one element (1 TO 1, -2 TO -2) accessed with an out-of-range index in that dimension: no Subscript out of range, another element is overwritten",
  "run_demo.sh (demo.bas vs expected.txt)"),
 ("C05-goto-label-unmarked", "C05", "instruction generator, visit(StatementPos): Label and GoTo statements no longer get a statement-address mark ('they cannot fail')",
  "an error continued by RESUME NEXT / under ON ERROR RESUME NEXT whose next statement in the same block is a GOTO: the GOTO is skipped",
  "run_demo.sh (demo.bas vs expected.txt)"),
 ("C08-mid-split-at-char-boundary", "C08", "do_mid rewritten with str::split_at(start_index) + chars().take(length): split_at panics off a character boundary",
  "MID$ on a string holding a character of code 128..255 with a start that falls inside that character: MID$(CHR$(200) + \"abc\", 2)",
  "run_demo.sh (demo.bas vs expected.txt)"),
 ("C10-hex-leading-zero-width", "C10", "process_hex parses with u32::from_str_radix and chooses the width from the number of digits as written (<= 4: INTEGER) instead of the significant bits",
  "an &H literal written with leading zeros so that it has 5 or more digits while its significant part has at most 4: &H0FFFF is 65535 (LONG) instead of -1",
  "run_demo.sh (demo.bas vs expected.txt)"),
 ("C11-resume-next-restores-stacktrace", "C11", "Interpreter::interpret, ErrorHandler::Next arm: when the call-site stack is empty the positions of the skipped error are copied back into it (posing as a fix for the drained stack after a handled built-in error)",
  "ON ERROR RESUME NEXT in force, an error of an ordinary instruction skipped in the main module outside any call, then a later unhandled error at any call depth: the old row is listed after the genuine call sites",
  "run_demo.sh (demo.bas, stderr vs expected.txt)"),
 ("C12-integer-mod-long-mismatch", "C12", "Variant::modulo: the nested match flattened into a tuple match; the arm that turned 'INTEGER left, rounded right operand not an INTEGER' into Overflow is gone and the pair falls to TypeMismatch",
  "MOD with an INTEGER left operand and a non-zero LONG right operand (or a float right operand that rounds outside the INTEGER range)",
  "run_demo.sh (demo.bas vs expected.txt)"),
 ("C17-right-takes-argument-slot", "C17", "RIGHT$: for count >= LEN(s) the string is moved out of argument slot 0 with mem::replace instead of cloned; the generated code copies slot 0 back into the caller's variable",
  "RIGHT$(v$, n) with n >= LEN(v$) on a variable, array element or STRING * n, and the variable read again afterwards",
  "run_demo.sh (demo.bas vs expected.txt)"),

 # ---- round 8 (second session): the kernels claimed last (C14, C15, C18) ----
 ("C14-not-equal-by-variant-eq", "C14", "eval_const, Operator::NotEqual arm: `Ok(Variant::from(v_left != v_right))` - Variant's PartialEq (different types are never equal) instead of try_cmp",
  "<> inside a CONST expression with operands of two different numeric types whose values are equal: CONST V = 2.0: CONST L = V <> 2 gives -1, PRINT (2.0) <> 2 prints 0",
  "run_demo.sh (demo.bas vs expected.txt)"),
 ("C14-const-lookup-global-first", "C14", "impl ConstLookup for Names, get_const_value: the global scope is searched before the current subprogram's scope",
  "a CONST at SUB/FUNCTION level whose expression refers to an earlier local constant that hides a global constant of the same name",
  "run_demo.sh (demo.bas vs expected.txt)"),
 ("C15-goto-forward-pops-registers", "C15", "instruction generator: a GOTO inside a FOR body emits one PopRegisters per FOR loop it is judged to leave; a label defined later in the same body is judged to be outside",
  "a GOTO inside a FOR ... NEXT body whose target label is defined after the GOTO in the same body (the 'continue' idiom): the register stack underflows",
  "run_demo.sh (demo.bas vs expected.txt)"),
 ("C15-block-labels-by-row", "C15", "instruction generator: generated labels are named by the source row only (`_{prefix}_{row}`) instead of row and column",
  "two block statements of the same kind starting on one source line (FOR i ...: FOR j ...; two variables in one DIM inside a STATIC sub): duplicate labels, the resolver keeps the last",
  "run_demo.sh (demo.bas vs expected.txt)"),
 ("C18-record-seek-cache", "C18", "FileInfo caches the file position and skips the seek when the cache equals the wanted offset; get_record advances the cache by rec_len even after a short read",
  "on one RANDOM handle a GET of a record beyond the end of the file followed by an access to the next record: PUT 1; GET 2; PUT 3; GET 3",
  "run_demo.sh (demo.bas vs expected.txt)"),
 ("C18-open-touches-file-before-handle-check", "C18", "FileManager::open opens or creates the file first (entry API 'one lookup instead of two') and only then finds the handle occupied",
  "OPEN on a handle in use: for a missing input file error 53 instead of 55; FOR OUTPUT on an existing file 55 is reported but the file is already emptied",
  "run_demo.sh (demo.bas vs expected.txt)"),

]

RESULTS_FILE = os.path.join(HERE, "seeded", "results.json")


def main():
    results = json.load(open(RESULTS_FILE)) if os.path.exists(RESULTS_FILE) else {}
    rows = []
    for name, prop, change, needs, demo in SEEDS:
        d = os.path.join(HERE, "seeded", name)
        if not os.path.isdir(d):
            continue
        r = results.get(name, {})
        meta = {
            "name": name, "breaks_property": prop, "change": change, "needs_to_manifest": needs, "demonstration": demo,
            "confirmed": "applied to a scratch worktree of /repo HEAD: workspace compiles, `cargo test --workspace --no-fail-fast --offline` "
                         "passes (1218 passed, 0 failed) with the change; the demonstration fails with the change and passes without it",
            "checks_run": r,
            "ran": ["tools/seed_verify.sh <worktree>", "sh SEED/run_demo.sh (with the change, then after git apply -R SEED/patch.diff)"]
                   + ["tools/seed_run.sh %s %s" % (name, c) for c in r],
        }
        with open(os.path.join(d, "meta.json"), "w") as f:
            json.dump(meta, f, indent=1, ensure_ascii=False)
            f.write("\n")
        caught = [c for c, v in r.items() if v.get("exit") == 1]
        missed = [c for c, v in r.items() if v.get("exit") == 0]
        und = [c for c, v in r.items() if v.get("exit") not in (0, 1)]
        inst = "; ".join("%s: %s" % (c, ", ".join(v.get("instances", [])[:4])) for c, v in r.items() if v.get("exit") == 1)
        rows.append("| `%s` | %s | %s | %s | %s |" % (name, prop, change.replace("|", "\\|"), ", ".join(caught) or "—",
                                                      (("**missed** by " + ", ".join(missed)) if missed and not caught else "") + inst
                                                      + ((" undecided: " + ", ".join(und)) if und else "")))
    table = "| seeded change | breaks | what was changed | caught by | failing instances / notes |\n|---|---|---|---|---|\n" + "\n".join(rows)
    open(os.path.join(HERE, "seeded", "TABLE.md"), "w").write(table + "\n")
    print(table)


if __name__ == "__main__":
    main()
