#!/bin/bash
# usage: seed_accept.sh <worktree> <seed-name>
# confirms a seeded change (suite passes with it; SEED/run_demo.sh fails with it and passes without it), then stores it
# under /verif/seeded/<seed-name>/ and removes the worktree.
set -u
W=$1; NAME=$2
cd "$W" || exit 2
[ -f SEED/patch.diff ] || { echo "no SEED/patch.diff"; exit 2; }
git checkout -q -- . 2>/dev/null; git apply SEED/patch.diff || { echo "patch does not apply to HEAD"; exit 2; }
git status --short | grep -v SEED
SUITE=$(cargo test --workspace --no-fail-fast --offline 2>&1 | grep -E "^test result" | awk '{p+=$4; f+=$6} END {print "passed=" p " failed=" f}')
echo "suite with change: $SUITE"
WITH=$(bash SEED/run_demo.sh 2>&1 | tail -n 1)
git apply -R SEED/patch.diff
WITHOUT=$(bash SEED/run_demo.sh 2>&1 | tail -n 1)
echo "demo with change: $WITH | without: $WITHOUT"
case "$SUITE" in *"failed=0"*) ;; *) echo "REJECT: suite fails"; exit 1;; esac
case "$WITH" in *FAIL*) ;; *) echo "REJECT: demo does not fail with the change"; exit 1;; esac
case "$WITHOUT" in *PASS*) ;; *) echo "REJECT: demo does not pass without the change"; exit 1;; esac
mkdir -p /verif/seeded/$NAME && cp -r SEED/* /verif/seeded/$NAME/ && echo "ACCEPTED -> /verif/seeded/$NAME"
cd / && git -C /repo worktree remove --force "$W"
