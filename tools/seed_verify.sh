#!/bin/bash
# usage: seed_verify.sh <worktree> : confirms that the seeded change compiles and passes the existing suite
# (prints the summed pass/fail counts), leaves the worktree with the change applied.
set -u
W=$1
cd "$W" || exit 2
git diff --quiet && { echo "no change applied in $W; applying SEED/patch.diff"; git apply SEED/patch.diff || exit 2; }
git diff -- . ':!SEED' > /tmp/_seed_actual.diff
if ! diff -q <(grep -v '^index ' /tmp/_seed_actual.diff) <(grep -v '^index ' SEED/patch.diff) >/dev/null; then echo "NOTE: worktree diff differs from SEED/patch.diff (using the patch file as the reference)"; fi
git status --short | grep -v SEED | head
cargo test --workspace --no-fail-fast --offline 2>&1 | grep -E "^test result" | awk '{p+=$4; f+=$6} END {print "suite with change: passed=" p " failed=" f}'
