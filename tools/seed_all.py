#!/usr/bin/env python3
"""Runs the quick checks against every seeded change (a copy of /repo with the patch applied; /repo is not touched) and
records exit code, VIOLATION lines and the failing instances in seeded/results.json.
usage: seed_all.py [--only name-substring] [--parallel N] [--jobs J] [--redo]"""
import json, os, re, shutil, subprocess, sys, tempfile, argparse
from concurrent.futures import ThreadPoolExecutor

HERE = os.path.dirname(os.path.dirname(os.path.abspath(__file__)))
RESULTS = os.path.join(HERE, "seeded", "results.json")
ALSO = {"C08": ["C17"], "C17": ["C08"], "C05": ["C08"], "C12": ["C06"], "C06": ["C12"], "C13": ["C09"], "C09": ["C13"], "C11": ["C09"]}


def run_seed(name, checks, jobs):
    seed = os.path.join(HERE, "seeded", name)
    d = tempfile.mkdtemp(prefix="seedrepo-", dir="/var/tmp")
    out = {}
    try:
        subprocess.run(["rsync", "-a", "--exclude", "/target", "--exclude", ".git", "/repo/", d + "/repo/"], check=True)
        r = subprocess.run("patch -s -p1 < %s/patch.diff" % seed, shell=True, cwd=d + "/repo")
        if r.returncode != 0:
            return {c: {"exit": "patch does not apply"} for c in checks}
        os.makedirs(d + "/evidence"); os.makedirs(d + "/replays")
        for c in checks:
            env = dict(os.environ, VERIF_REPO=d + "/repo", VK_EVIDENCE_DIR=d + "/evidence", VK_REPLAY_DIR=d + "/replays")
            p = subprocess.run([os.path.join(HERE, "vk"), "check", c, "--tier", "quick", "--jobs", str(jobs)], env=env,
                               stdout=subprocess.PIPE, stderr=subprocess.STDOUT, text=True)
            log = p.stdout
            viol = re.findall(r"^VIOLATION property=\S+ replay=\S*/([^/\s]+)\.rs", log, re.M)
            fails = re.findall(r"^\[vk\]\s+FAIL\s+(\S+)", log, re.M)
            und = re.findall(r"^\[vk\]\s+UNDECIDED\s+(\S+)", log, re.M)
            m = re.search(r"^\[vk\] (C\d+: \d+ instances.*)$", log, re.M)
            out[c] = {"exit": p.returncode, "violation_lines": len(viol), "instances": sorted(set(fails)), "undecided": sorted(set(und)),
                      "summary": m.group(1) if m else log[-300:]}
            print("seed=%s check=%s exit=%s violations=%d failing=%s" % (name, c, p.returncode, len(viol), ",".join(sorted(set(fails)))[:200]), flush=True)
    finally:
        shutil.rmtree(d, ignore_errors=True)
    return out


def main():
    ap = argparse.ArgumentParser()
    ap.add_argument("--only", default="")
    ap.add_argument("--parallel", type=int, default=2)
    ap.add_argument("--jobs", type=int, default=6)
    ap.add_argument("--redo", action="store_true")
    ap.add_argument("--own", action="store_true", help="only the seed's own property check")
    a = ap.parse_args()
    results = json.load(open(RESULTS)) if os.path.exists(RESULTS) else {}
    names = sorted(n for n in os.listdir(os.path.join(HERE, "seeded")) if os.path.isdir(os.path.join(HERE, "seeded", n)) and a.only in n)
    todo = []
    for n in names:
        prop = n.split("-")[0]
        checks = [prop] + ([] if a.own else ALSO.get(prop, []))
        checks = [c for c in checks if a.redo or c not in results.get(n, {})]
        if checks:
            todo.append((n, checks))
    with ThreadPoolExecutor(max_workers=a.parallel) as ex:
        futs = {n: ex.submit(run_seed, n, cs, a.jobs) for n, cs in todo}
        for n, f in futs.items():
            results.setdefault(n, {}).update(f.result())
            json.dump(results, open(RESULTS, "w"), indent=1)
    print("done")


if __name__ == "__main__":
    main()
