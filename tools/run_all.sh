#!/bin/bash
# runs every claimed check (quick tier by default) on the unchanged tree, one after the other; prints exit codes
cd /verif
TIER=${1:-quick}
for C in $(python3 -c "import json;print(' '.join(c['property_id'] for c in json.load(open('MANIFEST.json'))['checks']))"); do
  s=$(date +%s)
  ./vk check $C --tier $TIER > /var/tmp/all_$C.log 2>&1
  rc=$?
  echo "$C exit=$rc $(( $(date +%s) - s ))s $(grep -c '^KNOWN-FINDING' /var/tmp/all_$C.log) known-finding line(s) $(grep -c '^VIOLATION' /var/tmp/all_$C.log) violation line(s) | $(grep '^\[vk\] C' /var/tmp/all_$C.log | tail -n 1 | cut -c6-)"
done
