#!/bin/bash
# usage: seed_run.sh <seed-name> <Cxx> [more Cxx ...]
# Runs the quick checks against a copy of /repo with /verif/seeded/<seed-name>/patch.diff applied.  /repo itself is
# not touched (the registered commands work on /repo; this is only the developer loop), evidence and replays of these
# runs go to a scratch directory so that the committed evidence stays that of the unchanged tree.
set -u
NAME=$1; shift
SEED=${SEEDBASE:-/verif/seeded}/$NAME
D=$(mktemp -d /var/tmp/seedrepo-XXXXXX)
trap 'rm -rf "$D"' EXIT
rsync -a --exclude /target --exclude .git /repo/ "$D/repo/"
(cd "$D/repo" && patch -s -p1 < "$SEED/patch.diff") || { echo "patch does not apply"; exit 2; }
mkdir -p "$D/evidence" "$D/replays"
for C in "$@"; do
  VERIF_REPO="$D/repo" VK_EVIDENCE_DIR="$D/evidence" VK_REPLAY_DIR="$D/replays" /verif/vk check "$C" --tier "${TIER:-quick}" ${ONLY:+--only $ONLY} > "$D/$C.log" 2>&1
  rc=$?
  echo "seed=$NAME check=$C exit=$rc $(grep -c '^VIOLATION' "$D/$C.log") violation line(s)"
  grep -E "^VIOLATION|FAIL |UNDECIDED|counterexample" "$D/$C.log" | cut -c1-220 | head -12
done
