#!/usr/bin/env python3
"""Regenerates MANIFEST.json from the table below (claimed = a harness module harness/<id>.py exists)."""
import json, os

HERE = os.path.dirname(os.path.abspath(__file__))

TECH = "bounded model checking of the real code: Kani 0.68 #[kani::proof] harnesses over kani::any() inputs, decided by CBMC 6.11 + CaDiCaL (SAT); unwinding assertions on; counterexamples replayed natively; inductive-step harnesses (arbitrary pre-state under a representation invariant) instead of histories where the state is a data structure; kernels that are not functions of their own are sliced as text from the current source and compiled unchanged against stand-ins (DESIGN 1.4)"

SLICE = " (where the evidence says 'text, sliced': the driver cuts the text of these functions / match arms out of /repo's current source on every run and compiles it unchanged against a small stand-in environment, DESIGN 1.4)"

CLAIMED = {
    "C03": ("activation-stack kernel of Context, as an inductive step: from ANY state satisfying the representation invariant (<= 4 variable blocks, <= 4 activation states, <= 2 STATIC subprograms, any reference counts) each of begin_collecting_arguments, stop_collecting_arguments, stop_collecting_arguments_static, pop, push_error_handler_context, drop_arguments_for_array_allocation re-establishes the invariant, a callee runs on fresh variables, a STATIC subprogram re-enters the variables of its first activation wherever it is called from, an argument list is evaluated on the caller's variables, and no other activation or STATIC subprogram changes the variables it sees; Context::new() satisfies the invariant" + SLICE,
            "by-reference write-back, function results, parameter conversion, SHARED/CONST resolution and the contents of the variable tables are outside (Variables, Arguments, Vec and HashMap are stand-ins for the sliced text)", "4/C03"),
    "C04": ("index kernel: VArray::abs_index / get_element / get_dimension_bounds and allocation::to_dimensions, decided for every index tuple (any i16) and every shape within the bound (1-3 dimensions, any i8 lower bound, small extents): in-range iff inside the declared box, flat mapping injective and < len, LBOUND/UBOUND = declared; store-then-load locality on INTEGER arrays of small fixed shapes (any write tuple, any read tuple, any contents); string_utils::fix_length: a STRING * n holds exactly n characters - the text up to its first NUL, truncated or padded with blanks (texts of 0..4 characters, target lengths 0..5)",
            "records, the FixLength emission of the generator (by-reference routes), element conversion and by-reference routes are outside the claim (DESIGN 4/C04)", "4/C04"),
    "C05": ("resume-address kernel (NearestStatementFinder: RESUME = greatest mark <= failing address, RESUME NEXT = least mark > it) for every non-decreasing table within the bound and every failing address; RuntimeError::get_code total over the whole enum with the QBasic codes the statement names; error conversions; one iteration of the VM's fetch-execute loop (sliced text of Interpreter::interpret's loop body with the error dispatch, of the control arms of interpret_one and of take_last_error_address) from ANY machine state - GOSUB/return-address stacks of depth 0..3, any handler setting, ERR, pending error, statement table of 1..4 marks - on any of HALT, GOSUB, RETURN [label], GOTO, failing statements, ON ERROR GOTO / RESUME NEXT / GOTO 0, RESUME / RESUME NEXT / RESUME label, compared with a reference step written from the property text (inductive step: runs of any length)",
            "the loop condition, every non-control instruction, that Context behaves like the activation counter of the stand-in VM struct, loop registers surviving a GOTO and the generator's lowering of GOSUB/RETURN/ON ERROR are outside", "4/C05"),
    "C06": ("full machine width, one instance per (operation, tag pair): CastVariant::cast for all 16 numeric conversions (valid result within 0.5 / nearest, Overflow only when the rounded value does not fit), closure of Variant::{plus,minus,multiply,divide,modulo,negate,unary_not} (valid value, Overflow or DivisionByZero; integer results exact), static result type = dynamic tag",
            "that every route into a variable passes through these functions is outside; operands assumed valid (inductive step)", "4/C06"),
    "C08": ("no panic / overflow / out-of-range index for any argument of the admissible static type in the kernels the run time relies on: RuntimeError::get_code total; do_mid, do_instr, val, variant_casts conversions, NearestStatementFinder; string_utils::fix_length and the sliced bodies of LEFT$/RIGHT$/LTRIM$/RTRIM$/UCASE$/LCASE$ never fail internally on text with multi-byte characters",
            "that the linter rules out what the run time assumes (the larger half of the statement) is outside: linter and generator cannot be executed symbolically", "4/C08"),
    "C09": ("identity primitives, for names of every length up to the tokenizer's 40-character limit: cmp_str equal iff equal after ASCII case folding, antisymmetric; Eq/Hash agreement of CaseInsensitiveString (recording hasher); keyword lemma cmp_str(p,s) = cmp_str(p,fold(s)) plus sortedness of the keyword table; DEFtype table ignores case; CR, LF and CRLF advance the row once",
            "blanks, colons, comments and program-level invariance need the parser: outside", "4/C09"),
    "C10": ("decision tables: should_flip_binary for all 169 operator pairs against the standard precedence ranks, should_flip_unary for all 26; &H/&O digit strings of fixed length with symbolic digits denote their 16/32-bit two's complement value; a unary minus directly before a literal gives the exact negated value in the narrowest type, for every INTEGER/LONG/SINGLE/DOUBLE literal value",
            "the rotation driver (binary_expr recursion over the Expression tree) and decimal literals are outside (undecided in every formulation)", "4/C10"),
    "C11": ("position arithmetic: create_row_col_view is the row/column reference for every text over {x,CR,LF} within the bound; StringView::position inside the text or at its end; error envelopes carry [error position, call sites innermost first] and drain the VM stack; the call-site stack through one VM step from any state with 0..2 active call sites (sliced text, as C05): PushStack/PopStack keep it innermost first, an unhandled error carries [its position, the call sites innermost first]",
            "that positions survive parser -> linter -> generator is outside", "4/C11"),
    "C12": ("operator typing table against the dynamic operations for numeric types: whenever cast_binary_op_q accepts an operator on two numeric types, evaluating it on any two values of those types never yields TypeMismatch; can_cast_to implies cast never yields TypeMismatch",
            "string operands, built-in argument rules, which sub-expressions the post-conversion passes visit, verdict stability under renaming: linter traversal, outside", "4/C12"),
    "C13": ("default-type rule: after any sequence of <= 3 DEFtype statements with symbolic type and symbolic letter ranges in any case, char_to_qualifier(c) is the type of the last statement covering fold(c), SINGLE if none; bare names qualify by first letter, suffixed names keep their suffix",
            "DIM AS / duplicate definitions / SHARED / parameters / CONST scoping (hash-map scopes over the AST) are outside", "4/C13"),
    "C14": ("the operator dispatch of the constant folder against the operator handlers of the VM (sliced text of the BinaryExpression and UnaryExpression arms of ConstEvaluator::eval_const and of handlers::math / comparison / logical): for each of the 13 binary and 2 unary operators and every pair of numeric operand types, folding `a op b` gives the value and type - or the Overflow / Division by zero / Type mismatch rejection - that the VM's handler gives for the same operands; decided (a) with the operations on values uninterpreted (any result, ordering and conversion outcome: which operation on which operands after which conversions) and (b) on concrete full-width values for + - * < <= = >= > <> and the unary operators on three operand type pairs" + SLICE,
            "the tree walk of eval_const, constants referring to earlier constants, the conversion to the constant's suffix type, the two evaluation sites, the replacement of uses by literals and string operands are outside (DESIGN 4/C14)", "4/C14"),
    "C15": ("label-resolution pass of the generator (sliced text of LabelResolver::{resolve_labels, resolve_label, build_label_to_address_map}): for every program of 3..4 (quick) / 5..6 (thorough) instructions over the label-related instruction kinds with labels drawn from three names, each defined once and every referenced label defined, every branch / call / handler / resume target becomes the address - inside the list - of the label of that name, and nothing else changes; a duplicated label resolves to its last definition" + SLICE,
            "everything before the resolver - that the generator emits each label once, keeps a procedure's branches inside it, ends the main module with a halt and procedures with a return, and pairs pushes and pops along every path - needs statement trees through the generator and is outside (DESIGN 4/C15)", "4/C15"),
    "C16": ("device and statement state machine: WritePrinter column = bytes since the last CR/LF for every text within the bound, comma lands on the next multiple of 14, println resets; PrintState newline rule for every history of <= 3 items",
            "rendering of numbers (format!), PRINT USING, per-file devices and the lowering of PRINT are outside", "4/C16"),
    "C17": ("MID$, INSTR, VAL kernels: do_mid = substring reference for every string within the bound and every start/count, split law; do_instr = least position >= start; argument conversions reject negative counts / non-positive starts for every INTEGER; LEFT$, RIGHT$, UCASE$, LCASE$, LTRIM$, RTRIM$, SPACE$, STRING$(n, code): the sliced body of each run() on an argument array - exact prefix / suffix for each (length, count), only letters of the other case change, exactly the leading / trailing blanks go (texts with TAB and LF included), n blanks / n copies, Illegal function call for every negative count and every code outside 0..255; INSTR with needles of up to 3 (4 thorough) letters",
            "STRING$(n, text$), LEN (argument taken as &Variant: Kani 0.68 loses a String inside an enum with float variants), STR$ (format!), the concatenation laws and that Context delivers the arguments in order are outside", "4/C17"),
    "C18": ("the handle table and the record arithmetic of RANDOM files (sliced text of FileManager::{new, open, close, close_all, try_get_file_info, try_get_file_info_input, try_get_file_info_output} and FileInfo::{new_*, get_record, put_record, ensure_random}) on an in-memory file system: a record PUT is what GET of the same number returns whatever other records were written meanwhile, an unwritten record reads as zeros (record lengths 1..3, records 1..3, any contents); from any table with up to two of the handles 1..3 open in any mode, OPEN on a handle in use raises File already open (55) and changes nothing, OPEN FOR INPUT of a missing file raises File not found (53) and leaves the handle free, access in the wrong mode or to a closed handle is a file error, CLOSE frees exactly that handle, which can be opened again, CLOSE of all frees every handle" + SLICE,
            "that text written with PRINT # is read back by INPUT # / LINE INPUT #, EOF, APPEND, KILL / NAME, FIELD / LSET, the mapping of std::io::Error kinds and the host file system are outside (ReadInputSource is io::Result-based and exceeded 20 GB at 3 input bytes)", "4/C18"),
    "C19": ("integers full width (all 2^16 values / 2^32 pairs): AND/OR/NOT = machine bit operations, to/from bytes = little endian, PEEK/POKE byte view; CVD decoder = f64::from_le_bytes for every normal double and +-0; MKD$ encoder parts per binary exponent with all 52 mantissa bits symbolic",
            "the assembly of the encoder parts (and so CVD(MKD$(x)) = x end to end), subnormals, inf/NaN are outside; f64::powi(2.0,k) is stubbed by the exact power of two", "4/C19"),
    "C20": ("every combinator applied to arbitrary sub-parsers that satisfy the contract K (success never moves backwards, soft failure leaves the position, fatal stays fatal) satisfies K itself and has its documented meaning: an inductive step that covers parser expressions of any depth; primitives decided directly on symbolic inputs",
            "the induction over expression depth is pencil-and-paper; set_context plumbing beyond 'the context reaches the sub-parser' is outside", "4/C20"),
}

NOT_APPLICABLE = {
    "C01": "needs a symbolic program through parser+linter+generator+VM; none of the four is symbolically executable here (HashMap scopes, boxed combinators, recursive AST drop glue: probes in DESIGN 2); the arithmetic/typing/precedence kernels it relies on are decided under C06, C12, C10",
    "C02": "about statement trees under nesting through the code generator; symbolic trees blow up (AST drop glue, format!-built labels, HashMap label resolver); concrete trees would be enumeration, not solver-based checking",
    "C07": "totality of parser+linter over all texts; same obstacle as C01 (the position arithmetic is under C11, the literal scanners under C10)",
}


def main():
    checks, na = [], []
    for pid in sorted(set(CLAIMED) | set(NOT_APPLICABLE)):
        have = os.path.exists(os.path.join(HERE, "harness", pid + ".py"))
        if pid in CLAIMED and have:
            text, note, ref = CLAIMED[pid]
            checks.append({
                "property_id": pid,
                "quick_cmd": "./vk check %s --tier quick" % pid,
                "thorough_cmd": "./vk check %s --tier thorough" % pid,
                "evidence_file": "/verif/evidence/%s.json" % pid,
                "replay_cmd_template": "./vk replay {path}",
                "engine": "vk",
                "level_claimed": {"category": "model_checking",
                                  "text": "bounded model checking of the real functions (every input within the stated bound; full machine width where the evidence says exhaustive): " + text,
                                  "design_ref": "DESIGN.md " + ref},
                "level_note": note + "; trusted: Kani's MIR->GOTO translation, CBMC/CaDiCaL, the short harness-side reference functions, rustc",
                "technique": TECH,
            })
        elif pid in CLAIMED:
            na.append({"property_id": pid, "reason": "planned (DESIGN 4/%s) but the harness module is not built yet in this commit" % pid})
        else:
            na.append({"property_id": pid, "reason": NOT_APPLICABLE[pid]})
    m = {
        "version": 1,
        "setup_cmd": "./vk setup",
        "hooks": {
            "guard": "cfg(kani)",
            "enable": "no hooks are committed to /repo: each check appends `#[cfg(kani)] mod vk_<id> { ... }` harness blocks to a scratch copy of /repo's working tree (cfg(kani) is set only by the Kani compiler) and runs `cargo kani` there",
            "baseline_off_cmd": "cd /repo && cargo test --workspace --no-fail-fast --offline",
            "source_commits": [],
            "add_only": True,
        },
        "engines": [{"name": "vk", "path": "/verif/vk", "serves_properties": [c["property_id"] for c in checks],
                     "kind_free_text": "driver: scratch copy of /repo + injected Kani harnesses; CBMC/CaDiCaL decides; native replay of counterexamples; known_findings.json via twin/rest harnesses"}],
        "checks": checks,
        "not_applicable": na,
        "notes": "Exit 2 from a check means undecided (build error against an edited tree, solver time-out on a core instance, counterexample that does not replay natively) - never success, never a VIOLATION. Unguarded `fix:` commits in /repo are listed in known_findings.json as fixed entries.",
    }
    with open(os.path.join(HERE, "MANIFEST.json"), "w") as f:
        json.dump(m, f, indent=1)
        f.write("\n")
    print("claimed:", [c["property_id"] for c in checks], "n/a:", [n["property_id"] for n in na])


if __name__ == "__main__":
    main()
