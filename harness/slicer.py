"""Source slicing: pieces of /repo's *current* source text, transplanted verbatim into a harness module.

Some kernels a property depends on are not functions of their own: the body of a built-in's `run<S: InterpreterTrait>`
(reads its arguments from the VM `Context`, writes the result back) or one arm of the 90-way `match` in
`Interpreter::interpret_one`.  Running them through the real `Context` / `Interpreter` is out of CBMC's reach (DESIGN 0),
so the driver cuts the text out of the working tree on every run and compiles it, unchanged, against a small duck-typed
environment written in the harness (an argument array in place of `Context`, a struct with the same field names in place
of `Interpreter`).  The statements the solver executes are the repository's own lines; the environment is a stub and is
listed as such in the evidence.

If the text cannot be found (function renamed, arm moved into a helper) `SliceError` is raised: the instances that need it
are reported as undecided, never as a violation.
"""
import os
import re

REPO = os.environ.get("VERIF_REPO", "/repo")


class SliceError(Exception):
    pass


def read(rel):
    p = os.path.join(REPO, rel)
    if not os.path.exists(p):
        raise SliceError("%s does not exist in the current tree" % rel)
    with open(p) as f:
        return f.read()


def _skip_trivia(src, i):
    """Index just after a string / char literal / comment that starts at i, or i if none starts there."""
    n = len(src)
    if src.startswith("//", i):
        j = src.find("\n", i)
        return n if j < 0 else j
    if src.startswith("/*", i):
        depth, j = 1, i + 2
        while j < n and depth:
            if src.startswith("/*", j):
                depth += 1
                j += 2
            elif src.startswith("*/", j):
                depth -= 1
                j += 2
            else:
                j += 1
        return j
    c = src[i]
    if c == '"':
        j = i + 1
        while j < n and src[j] != '"':
            j += 2 if src[j] == "\\" else 1
        return j + 1
    m = re.compile(r'b?r(#*)"').match(src, i)
    if m and (i == 0 or not (src[i - 1].isalnum() or src[i - 1] == "_")):
        close = '"' + m.group(1)
        j = src.find(close, m.end())
        return n if j < 0 else j + len(close)
    if c == "'":
        # char literal or lifetime
        m = re.compile(r"'(\\.[^']*|[^'\\])'").match(src, i)
        if m:
            return m.end()
        return i + 1
    return i


def match_close(src, i):
    """src[i] is an opening bracket; returns the index of its closing partner."""
    pairs = {"{": "}", "(": ")", "[": "]"}
    stack = [pairs[src[i]]]
    j = i + 1
    n = len(src)
    while j < n:
        k = _skip_trivia(src, j)
        if k != j:
            j = k
            continue
        c = src[j]
        if c in pairs:
            stack.append(pairs[c])
        elif c in "})]":
            if c != stack[-1]:
                raise SliceError("unbalanced brackets")
            stack.pop()
            if not stack:
                return j
        j += 1
    raise SliceError("unbalanced brackets")


def function(src, name):
    """(signature text before the body, body text without the outer braces) of the first `fn name`."""
    m = re.search(r"\bfn\s+%s\b" % re.escape(name), src)
    if not m:
        raise SliceError("fn %s not found" % name)
    i = m.end()
    # the body starts at the first `{` outside parentheses / generics-with-braces
    j = i
    n = len(src)
    while j < n:
        k = _skip_trivia(src, j)
        if k != j:
            j = k
            continue
        if src[j] in "([":
            j = match_close(src, j) + 1
            continue
        if src[j] == "{":
            break
        if src[j] == ";":
            raise SliceError("fn %s has no body" % name)
        j += 1
    end = match_close(src, j)
    return src[m.start():j].strip(), src[j + 1:end]


def match_arms(body, head_re):
    """The arms [(pattern text, arm body text)] of the first `match <head> {` whose head matches head_re."""
    m = re.search(r"\bmatch\s+%s\s*\{" % head_re, body)
    if not m:
        raise SliceError("match %s not found" % head_re)
    start = m.end() - 1
    end = match_close(body, start)
    text = body[start + 1:end]
    arms = []
    i, n = 0, len(text)
    while i < n:
        # pattern: up to `=>` at depth 0
        while i < n and text[i].isspace():
            i += 1
        k = _skip_trivia(text, i) if i < n else i
        if i < n and k != i and text.startswith("/", i):
            i = k
            continue
        if i >= n:
            break
        p0 = i
        while i < n and not text.startswith("=>", i):
            k = _skip_trivia(text, i)
            if k != i:
                i = k
            elif text[i] in "([{":
                i = match_close(text, i) + 1
            else:
                i += 1
        if i >= n:
            break
        pattern = text[p0:i].strip()
        i += 2
        while i < n and text[i].isspace():
            i += 1
        b0 = i
        if text[i] == "{":
            e = match_close(text, i)
            arm = text[b0:e + 1]
            i = e + 1
            while i < n and text[i].isspace():
                i += 1
            if i < n and text[i] == ",":
                i += 1
        else:
            while i < n and text[i] != ",":
                k = _skip_trivia(text, i)
                if k != i:
                    i = k
                elif text[i] in "([{":
                    i = match_close(text, i) + 1
                else:
                    i += 1
            arm = text[b0:i].strip()
            i += 1
        arms.append((pattern, arm))
    return arms


def select_arms(arms, wanted):
    """The arms whose pattern starts with one of the wanted prefixes, as `pattern => body,` text, in source order.
    Every wanted prefix must select exactly one arm."""
    out, seen = [], {}
    for pattern, arm in arms:
        for w in wanted:
            if re.match(re.escape(w) + r"(\b|\(|$)", pattern) and (pattern == w or pattern.startswith(w + "(") or pattern.startswith(w + " ")):
                seen[w] = seen.get(w, 0) + 1
                out.append("%s => %s," % (pattern, arm))
    for w in wanted:
        if seen.get(w, 0) != 1:
            raise SliceError("arm %s found %d times" % (w, seen.get(w, 0)))
    return "\n".join(out)


def block(src, header_re):
    """(header text, body text without the outer braces) of the first item whose header matches header_re
    (e.g. r"impl\s+Context", r"struct\s+State"); the header runs up to the opening brace."""
    m = re.search(header_re, src)
    if not m:
        raise SliceError("item /%s/ not found" % header_re)
    j = m.end()
    n = len(src)
    while j < n and src[j] != "{":
        k = _skip_trivia(src, j)
        if k != j:
            j = k
        elif src[j] in "([":
            j = match_close(src, j) + 1
        elif src[j] == ";":
            raise SliceError("item /%s/ has no body" % header_re)
        else:
            j += 1
    end = match_close(src, j)
    return src[m.start():j].strip(), src[j + 1:end]


def item_text(src, header_re):
    """Full text `header { body }` of the first item whose header matches."""
    h, b = block(src, header_re)
    return "%s {%s}" % (h, b)


def function_text(src, name):
    """Full text of `fn name` (with its visibility) inside src."""
    m = re.search(r"(pub(\([a-z]+\))?\s+)?\bfn\s+%s\b" % re.escape(name), src)
    if not m:
        raise SliceError("fn %s not found" % name)
    sig, body = function(src[m.start():], name)
    return "%s {%s}" % (sig, body)


def functions_text(src, names):
    return "\n\n".join("    " + function_text(src, n) for n in names)


def fn_names(src):
    """Names of the functions defined at any depth in src, in order of appearance."""
    return [m.group(1) for m in re.finditer(r"\bfn\s+([A-Za-z_][A-Za-z0-9_]*)\b", src)]


def closure(src, roots, exclude=()):
    """The root functions plus every function defined in src that they call (directly or through others): a private helper a
    refactoring introduces is sliced along with its caller.  Calls are recognised textually (`name(`, `self.name(`, `Self::name(`)."""
    defined = []
    for n in fn_names(src):
        if n not in defined:
            defined.append(n)
    wanted, todo = [], [r for r in roots]
    while todo:
        n = todo.pop(0)
        if n in wanted or n in exclude:
            continue
        if n not in defined:
            if n in roots:
                raise SliceError("fn %s not found" % n)
            continue
        wanted.append(n)
        _, body = function(src, n)
        for m in re.finditer(r"\b([A-Za-z_][A-Za-z0-9_]*)\s*(?:::<[^>]*>)?\s*\(", body):
            c = m.group(1)
            if c in defined and c not in wanted and c not in todo:
                todo.append(c)
    return [n for n in defined if n in wanted]
