"""C13 - names resolve by the documented rules: the default-type (DEFtype) rule and name qualification (DESIGN 4/C13)."""
from vklib import Builder

HELP = """
    pub fn vk_qualifier(k: u8) -> TypeQualifier {
        match k {
            0 => TypeQualifier::BangSingle, 1 => TypeQualifier::HashDouble, 2 => TypeQualifier::DollarString,
            3 => TypeQualifier::PercentInteger, _ => TypeQualifier::AmpersandLong,
        }
    }
    /// any latin letter in either case
    pub fn vk_letter() -> char {
        let c: u8 = kani::any();
        kani::assume((c >= b'A' && c <= b'Z') || (c >= b'a' && c <= b'z'));
        c as char
    }
    pub fn vk_idx(c: char) -> u8 {
        let b = c as u8;
        if b >= b'a' { b - b'a' } else { b - b'A' }
    }
"""


def deftype_harness(b, rel, n_fills, tier, cost):
    """n_fills range arguments in program order (each DEFtype statement contributes its arguments in order, so a sequence
    of statements is a sequence of (type, range) fills); types and letters symbolic."""
    b.add(rel, "vk_c13_deftype_%dfills" % n_fills, """
        let mut resolver = TypeResolverImpl::new();
        let c = vk_letter();                         // the letter looked up afterwards, any case
        let mut want = TypeQualifier::BangSingle;    // no DEFtype statement covers it: SINGLE
        let mut s = 0usize;
        while s < %(n)d {
            let q = vk_qualifier(kani::any());
            let start = vk_letter();
            let single: bool = kani::any();
            let stop = if single { start } else { vk_letter() };
            resolver.fill_ranges(start, stop, q);
            // later statements and later ranges override earlier ones
            if vk_idx(start) <= vk_idx(c) && vk_idx(c) <= vk_idx(stop) { want = q; }
            s += 1;
        }
        assert!(resolver.char_to_qualifier(c) == want);
        // the other spelling of the same letter resolves identically
        let other = if c.is_ascii_uppercase() { c.to_ascii_lowercase() } else { c.to_ascii_uppercase() };
        assert!(resolver.char_to_qualifier(other) == want);
        """ % {"n": n_fills}, unwind=28, tier=tier, cost=cost,
          bounds="every sequence of exactly %d (type, letter or letter range) DEFtype arguments in program order, any of the five types, "
                 "any letters in any case, any looked-up letter; unwind 28 (checked)" % n_fills,
          functions=["rusty_linter::core::TypeResolverImpl::new",
                     "rusty_linter::core::type_resolver_impl::TypeResolverImpl::fill_ranges",
                     "rusty_linter::core::type_resolver_impl::char_to_alphabet_index",
                     "rusty_linter::core::TypeResolver::char_to_qualifier"])


def set_harness(b, rel, n_ranges, tier, cost):
    """TypeResolverImpl::set on one DEFtype statement: dispatches each argument, in order, to fill_ranges."""
    b.add(rel, "vk_c13_set_%dranges" % n_ranges, """
        let mut resolver = TypeResolverImpl::new();
        let mut model = TypeResolverImpl::new();
        let q = vk_qualifier(kani::any());
        let mut ranges: Vec<LetterRange> = Vec::with_capacity(%(r)d);
        let mut k = 0usize;
        while k < %(r)d {
            let start = vk_letter();
            let single: bool = kani::any();
            let stop = if single { start } else { vk_letter() };
            ranges.push(if single { LetterRange::Single(start) } else { LetterRange::Range(start, stop) });
            model.fill_ranges(start, stop, q);
            k += 1;
        }
        let d = DefType::new(q, ranges);
        resolver.set(&d);
        std::mem::forget(d);
        let c = vk_letter();
        assert!(resolver.char_to_qualifier(c) == model.char_to_qualifier(c));
        """ % {"r": n_ranges}, unwind=28, tier=tier, cost=cost, core=n_ranges == 1,
          bounds="one DEFtype statement with exactly %d arguments (single letters or ranges), any type, any letters; unwind 28" % n_ranges,
          functions=["rusty_linter::core::TypeResolverImpl::set", "rusty_parser::DefType::ranges", "rusty_parser::DefType::qualifier"])


def spec(tier, seed):
    b = Builder("C13")
    tr = b.file("rusty_linter/src/core/type_resolver_impl.rs", "rusty_linter", "core::type_resolver_impl")
    b.helper(tr, HELP)
    for n in (1, 2, 3, 4, 5, 6):
        deftype_harness(b, tr, n, "quick" if n <= 3 else "thorough", 10 * n * n)
    set_harness(b, tr, 1, "quick", 60)
    set_harness(b, tr, 2, "thorough", 200)

    # names: bare -> first letter's type, suffixed -> its suffix; case-insensitive identity, suffix-sensitive
    b.add(tr, "vk_c13_name_qualification", """
        use crate::core::{IntoQualified, IntoTypeQualifier};
        use rusty_parser::{BareName, Name};
        let mut resolver = TypeResolverImpl::new();
        let first = vk_letter();
        let q = vk_qualifier(kani::any());
        resolver.fill_ranges(first, first, q);
        // a two-letter name starting with `first`
        let bytes: [u8; 2] = [first as u8, b'x'];
        let text: &str = unsafe { std::str::from_utf8_unchecked(&bytes) };
        let bare = BareName::from(text);
        assert!(bare.qualify(&resolver) == q);
        let name = Name::bare(BareName::from(text));
        assert!(name.qualify(&resolver) == q);
        let sfx = vk_qualifier(kani::any());
        let suffixed = Name::qualified(BareName::from(text), sfx);
        assert!(suffixed.qualify(&resolver) == sfx);           // an explicit suffix wins over DEFtype
        let qualified = name.to_qualified(&resolver);
        assert!(qualified.qualifier() == Some(q));
        let kept = suffixed.to_qualified(&resolver);
        assert!(kept.qualifier() == Some(sfx));
        std::mem::forget(bare);
        std::mem::forget(qualified);
        std::mem::forget(kept);
        """, unwind=28, cost=60,
          bounds="every first letter in either case, every DEFtype target type, every suffix; two-letter names",
          functions=["rusty_linter::core::IntoTypeQualifier for BareName", "rusty_linter::core::IntoTypeQualifier for Name",
                     "rusty_linter::core::IntoQualified for BareName", "rusty_linter::core::IntoQualified for Name",
                     "rusty_parser::Name::qualified", "rusty_parser::Name::bare"])
    nm = b.file("rusty_parser/src/core/name.rs", "rusty_parser", "core::name")
    b.add(nm, "vk_c13_name_identity", """
        // names that differ only in letter case are the same name; names that differ in suffix are not
        let a: [u8; 2] = kani::any();
        let c: [u8; 2] = kani::any();
        let mut k = 0usize;
        let mut same_folded = true;
        while k < 2 {
            kani::assume(a[k].is_ascii_alphabetic() && c[k].is_ascii_alphabetic());
            if a[k].to_ascii_uppercase() != c[k].to_ascii_uppercase() { same_folded = false; }
            k += 1;
        }
        let qa: Option<TypeQualifier> = if kani::any() { Some(vk_q(kani::any())) } else { None };
        let qc: Option<TypeQualifier> = if kani::any() { Some(vk_q(kani::any())) } else { None };
        let na = Name::new(BareName::from(unsafe { std::str::from_utf8_unchecked(&a) }), qa);
        let nc = Name::new(BareName::from(unsafe { std::str::from_utf8_unchecked(&c) }), qc);
        assert!((na == nc) == (same_folded && qa == qc));
        std::mem::forget(na);
        std::mem::forget(nc);
        """, unwind=4, cost=40, bounds="every pair of two-letter names in any case, with or without any suffix",
          functions=["rusty_parser::Name::eq", "rusty_common::CaseInsensitiveString::eq", "rusty_parser::Name::new"])
    b.helper(nm, """
    pub fn vk_q(k: u8) -> TypeQualifier {
        match k {
            0 => TypeQualifier::BangSingle, 1 => TypeQualifier::HashDouble, 2 => TypeQualifier::DollarString,
            3 => TypeQualifier::PercentInteger, _ => TypeQualifier::AmpersandLong,
        }
    }
    """)
    tq = b.file("rusty_parser/src/core/type_qualifier.rs", "rusty_parser", "core::type_qualifier")
    b.add(tq, "vk_c13_suffix_characters", """
        // the five suffix characters denote the five types, one to one
        let k: u8 = kani::any();
        kani::assume(k < 5);
        let q = match k { 0 => TypeQualifier::BangSingle, 1 => TypeQualifier::HashDouble, 2 => TypeQualifier::DollarString,
                          3 => TypeQualifier::PercentInteger, _ => TypeQualifier::AmpersandLong };
        let want = match k { 0 => '!', 1 => '#', 2 => '$', 3 => '%', _ => '&' };
        let ch = char::from(q);
        assert!(ch == want);
        match TypeQualifier::try_from(ch) { Ok(back) => assert!(back == q), Err(e) => { std::mem::forget(e); assert!(false); } }
        let j: u8 = kani::any();
        kani::assume(j < 5 && j != k);
        let other = match j { 0 => TypeQualifier::BangSingle, 1 => TypeQualifier::HashDouble, 2 => TypeQualifier::DollarString,
                              3 => TypeQualifier::PercentInteger, _ => TypeQualifier::AmpersandLong };
        assert!(char::from(other) != ch && other != q);
        """, unwind=2, exhaustive=True, cost=5, bounds="all five type suffixes",
          functions=["rusty_parser::TypeQualifier::try_from(char)", "rusty_parser::From<TypeQualifier> for char"])
    return b.build(
        tier,
        bounds="sequences of 1..3 DEFtype arguments (quick) / 1..6 (thorough), letters and types symbolic; set() on statements of 1 (quick) / 2 arguments; two-letter names",
        outside="DIM AS / duplicate definitions / SHARED / parameters / CONST scoping (names_*.rs and the converter rules: hash-map scopes over the AST); "
                "that the parser hands the ranges over unchanged (its start <= stop test compares before case folding)",
        assumptions=["range ends and looked-up characters are latin letters (guaranteed by the tokenizer)"],
    )
