"""C08 - accepted programs end in a BASIC-level outcome: error-code and argument kernels never fail internally (DESIGN 4/C08)."""
from vklib import Builder
import strkernels as sk
import bifn
import slicer
from C05 import error_code_harnesses


def spec(tier, seed):
    b = Builder("C08")
    err = b.file("rusty_basic/src/interpreter/error.rs", "rusty_basic", "interpreter::error")
    error_code_harnesses(b, err, "vk_c08")

    # any text, including non-ASCII, any position / count the argument conversions let through
    mid = b.file(sk.MID_FILE, "rusty_basic", "interpreter::built_ins::mid_fn")
    b.helper(mid, sk.UNICODE_TEXT)
    ins = b.file(sk.INSTR_FILE, "rusty_basic", "interpreter::built_ins::instr")
    b.helper(ins, sk.UNICODE_TEXT)
    val = b.file(sk.VAL_FILE, "rusty_basic", "interpreter::built_ins::val")
    for n in (1, 2, 3):
        t = "quick" if n <= 2 else "thorough"
        b.add(mid, "vk_c08_mid_total_len%d" % n, """
        let s = vk_text(%d);
        let start: usize = kani::any();
        kani::assume(start >= 1 && start <= 32767);          // what to_positive_int lets through
        let has_count: bool = kani::any();
        let count: usize = kani::any();
        kani::assume(count <= 32767);                        // what to_non_negative_int lets through
        match do_mid(&s, start, if has_count { Some(count) } else { None }) {
            Ok(r) => { assert!(r.len() <= s.len()); std::mem::forget(r); }
            Err(e) => { let c = e.get_code(); assert!(c > 0); std::mem::forget(e); }
        }
        std::mem::forget(s);
        """ % n, unwind=2 * n + 3, tier=t, cost=30 * n * n,
              bounds="every text of exactly %d letters over {a, b, U+00E9} (byte length %d..%d); any start 1..32767; count absent or 0..32767" % (n, n, 2 * n),
              functions=["rusty_basic::interpreter::built_ins::mid_fn::do_mid"])
    # INSTR on text with multi-byte characters: one instance per *shape* (which letters are the two-byte U+00E9),
    # the ASCII letters symbolic; the text lives in a stack array (a heap String of symbolic length ran CBMC out of memory)
    def shape_bytes(name, shape):
        parts, decl = [], []
        for k, c in enumerate(shape):
            if c == "x":
                decl.append("let %s%d: u8 = kani::any(); kani::assume(%s%d < 128);" % (name, k, name, k))
                parts.append("%s%d" % (name, k))
            else:
                parts += ["0xC3", "0xA9"]
        return "\n        ".join(decl), "[" + ", ".join(parts) + "]", len(parts)
    shapes = ["x", "e", "xe", "ex", "ee", "xx", "xex", "exe"]
    for hs in shapes:
        for ns in ("x", "e", "xe", "ex"):
            if len(ns) > len(hs):
                continue
            hd, harr, hl = shape_bytes("h", hs)
            nd, narr, nl = shape_bytes("n", ns)
            quick = len(hs) <= 2 and len(ns) == 1
            b.add(ins, "vk_c08_instr_total_%s_in_%s" % (ns, hs), """
        %s
        %s
        let hb: [u8; %d] = %s;
        let nb: [u8; %d] = %s;
        let hay: &str = unsafe { std::str::from_utf8_unchecked(&hb) };
        let needle: &str = unsafe { std::str::from_utf8_unchecked(&nb) };
        let start: usize = kani::any();
        kani::assume(start >= 1 && start <= 32767);
        match do_instr(start, hay, needle) {
            Ok(r) => assert!(r >= 0 && (r as usize) <= hay.len()),
            Err(e) => { let c = e.get_code(); assert!(c > 0); std::mem::forget(e); }
        }
        """ % (hd, nd, hl, harr, nl, narr), unwind=hl + 3, tier="quick" if quick else "thorough", cost=10 + 5 * hl * nl,
                  bounds="haystack shape %s, needle shape %s (x = any 7-bit byte, e = U+00E9 as two bytes); any start 1..32767" % (hs, ns),
                  functions=["rusty_basic::interpreter::built_ins::instr::do_instr"],
                  basic='PRINT INSTR("\u00e9", "a")')
    for n in (1, 2, 3, 4):
        t = "quick" if n <= 3 else "thorough"
        b.add(val, "vk_c08_val_total_len%d" % n, """
        // every text over an alphabet that exercises all branches of the scanner
        let mut bytes: [u8; %(n)d] = [0; %(n)d];
        let mut k = 0usize;
        while k < %(n)d {
            let c: u8 = kani::any();
            kani::assume(c < 8);
            bytes[k] = match c { 0 => b'0', 1 => b'9', 2 => b'5', 3 => b'.', 4 => b'-', 5 => b'+', 6 => b' ', _ => b'x' };
            k += 1;
        }
        let s: &str = unsafe { std::str::from_utf8_unchecked(&bytes) };
        match val(s) {
            Ok(v) => {
                let ok = match &v {
                    Variant::VInteger(i) => *i >= -32768 && *i <= 32767,
                    Variant::VLong(l) => *l >= -2147483648 && *l <= 2147483647,
                    Variant::VDouble(d) => d.is_finite(),
                    _ => false,
                };
                assert!(ok);
                std::mem::forget(v);
            }
            Err(e) => { std::mem::forget(e); assert!(false); }     // short numerals cannot overflow
        }
        """ % {"n": n}, unwind=n + 2, tier=t, core=n <= 2, cost=10 * 4 ** n, stubs=[("f64::powi", "vk_powi10")],
              bounds="every text of exactly %d characters over {0, 9, 5, '.', '-', '+', ' ', x}" % n,
              functions=["rusty_basic::interpreter::built_ins::val::val"])
    b.helper(val, """
    /// 10^k for the small k the harness reaches (Kani over-approximates f64::powi)
    pub fn vk_powi10(base: f64, k: i32) -> f64 {
        assert!(base == 10.0 && k >= 0 && k <= 6);
        let mut r = 1.0f64;
        let mut i = 0;
        while i < k { r *= 10.0; i += 1; }
        r
    }
    """)
    casts = b.file(sk.CASTS_FILE, "rusty_basic", "interpreter::variant_casts")
    sk.arg_casts(b, casts, "vk_c08")

    # STRING * n: pad / truncate, also when the cut falls inside a multi-byte character
    su = b.file(sk.SU_FILE, "rusty_basic", "interpreter::string_utils")
    for shape, length, t in (("xe", 2, "quick"), ("ex", 1, "quick"), ("xx", 1, "quick"), ("x", 3, "quick"), ("xex", 2, "thorough"), ("ee", 3, "thorough")):
        sk.fix_length_kernel(b, su, "vk_c08", shape, length, t)

    # LEFT$, RIGHT$, LTRIM$, RTRIM$, UCASE$, LCASE$ on text with multi-byte characters: the body of run() sliced from the current source
    notes = []
    try:
        bifn.total_on_unicode(b, "vk_c08", 1, "quick")
        bifn.total_on_unicode(b, "vk_c08", 2, "thorough")
        # the argument rule of the checker against the run-time body (the statement's "argument validation of built-ins at lint time;
        # run-time code then uses unchecked accessors")
        # (decided for the built-ins whose body does not touch a string; for the others CBMC runs out of memory at 8 GB even on empty
        # texts - the argument list of symbolic length merges text and numeric arguments - thorough, non-core)
        for name in ("space", "chr"):
            bifn.lint_vs_run(b, "vk_c08", name, "quick")
        for name in ("left", "right", "mid_fn", "instr", "ltrim", "rtrim", "ucase", "lcase"):
            bifn.lint_vs_run(b, "vk_c08", name, "thorough", core=False)
    except slicer.SliceError as e:
        notes.append("built-in bodies could not be sliced from the current tree (%s): the LEFT$/RIGHT$/... instances are missing from this run" % e)

    # (probed: Context::push_error_handler_context after 0..3 begin_collecting_arguments, then pop - with RandomState::new stubbed
    # to fixed keys because HashMap::new() issues a getrandom system call Kani does not model: no verdict in 600 s; dropping a
    # MemoryBlock drags in the Variant drop glue.  The activation stack stays outside the claim.)

    main = b.file("rusty_basic/src/interpreter/main.rs", "rusty_basic", "interpreter::main")
    for n in (2, 3):
        b.add(main, "vk_c08_resume_address_total_n%d" % n, """
        let t: [usize; %(n)d] = kani::any();
        let mut k = 1usize;
        while k < %(n)d { kani::assume(t[k - 1] <= t[k]); k += 1; }
        kani::assume(t[%(n)d - 1] < usize::MAX);
        let a: usize = kani::any();
        kani::assume(t[0] <= a && a <= t[%(n)d - 1]);
        let finder = NearestStatementFinder::new(t.to_vec());
        let cur = finder.find_current(a);       // no panic, no out-of-range index
        let next = finder.find_next(a);
        assert!(cur <= a && next > a);
        std::mem::forget(finder);
        """ % {"n": n}, unwind=n + 2, cost=10,
              bounds="non-decreasing tables of exactly %d entries, any usize addresses" % n,
              functions=["rusty_basic::interpreter::main::NearestStatementFinder::find_current",
                         "rusty_basic::interpreter::main::NearestStatementFinder::find_next"])
    return b.build(
        tier,
        notes=notes,
        bounds="RuntimeError exhaustively; texts of 1..2 (quick) / 1..3 (thorough) letters over {a, b, U+00E9}; VAL texts of 1..3 / 1..4 characters; "
               "numbers full width",
        outside="that the linter rules out what the run time assumes (to_str_unchecked, PRINT (UCASE$(5)), unresolved labels, missing variable "
                "info); console input (ReadInputSource); PRINT USING; every built-in other than MID$/INSTR/VAL",
        stubs=[bifn.STUB_NOTE, "f64::powi(10.0, k) -> exact product for 0 <= k <= 6 (Kani over-approximates powi); used only by vk_c08_val_total_*"],
        assumptions=["arguments have the statically admissible type (a string where a string is expected)"],
    )
