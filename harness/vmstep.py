"""One VM step from an arbitrary valid state: control-flow and call-stack arms of Interpreter::interpret_one, and the
error dispatch of Interpreter::interpret on control-only programs.  Shared by C05 (transfers) and C11 (call-site stack)."""

MAIN = "rusty_basic/src/interpreter/main.rs"

MOCKS = """
    pub struct VkStd;
    impl Stdlib for VkStd {
        fn system(&self) {}
        fn get_env_var(&self, _name: &str) -> String { String::new() }
        fn set_env_var(&mut self, _name: String, _value: String) {}
    }
    pub struct VkIn;
    impl Input for VkIn {
        fn eof(&mut self) -> std::io::Result<bool> { Ok(true) }
        fn input(&mut self) -> std::io::Result<String> { Ok(String::new()) }
        fn line_input(&mut self) -> std::io::Result<String> { Ok(String::new()) }
    }
    pub struct VkOut;
    impl Printer for VkOut {
        fn print(&mut self, _s: &str) -> std::io::Result<usize> { Ok(0) }
        fn println(&mut self) -> std::io::Result<usize> { Ok(0) }
        fn move_to_next_print_zone(&mut self) -> std::io::Result<usize> { Ok(0) }
    }
    pub struct VkScreen;
    impl Screen for VkScreen {
        fn cls(&self) -> Result<(), RuntimeError> { Ok(()) }
        fn background_color(&self, _color: i32) -> Result<(), RuntimeError> { Ok(()) }
        fn foreground_color(&self, _color: i32) -> Result<(), RuntimeError> { Ok(()) }
        fn move_to(&self, _row: u16, _col: u16) -> Result<(), RuntimeError> { Ok(()) }
        fn show_cursor(&self) -> Result<(), RuntimeError> { Ok(()) }
        fn hide_cursor(&self) -> Result<(), RuntimeError> { Ok(()) }
        fn get_view_print(&self) -> Option<(usize, usize)> { None }
        fn set_view_print(&mut self, _start_row: usize, _end_row: usize) {}
        fn reset_view_print(&mut self) {}
    }
    /// The built-in dispatch is not part of these steps: with it reachable Kani 0.68 dies with an internal compiler error
    /// (intrinsics.rs:243), so the two dispatch functions are stubbed out (the harnesses never execute a built-in).
    pub fn vk_no_sub<S: InterpreterTrait>(_s: &rusty_parser::BuiltInSub, _interpreter: &mut S) -> Result<(), RuntimeError> { Ok(()) }
    pub fn vk_no_function<S: InterpreterTrait>(_f: &rusty_parser::BuiltInFunction, _interpreter: &mut S) -> Result<(), RuntimeError> { Ok(()) }
    pub type VkVm = Interpreter<VkStd, VkIn, VkOut, VkOut>;
    pub fn vk_vm() -> VkVm {
        Interpreter::new(VkStd, VkIn, VkOut, VkOut, VkScreen, UserDefinedTypes::new())
    }
    /// any non-decreasing statement-address table of three marks
    pub fn vk_finder() -> (NearestStatementFinder, [usize; 3]) {
        let t: [usize; 3] = kani::any();
        kani::assume(t[0] <= t[1] && t[1] <= t[2] && t[2] < 1000);
        (NearestStatementFinder::new(t.to_vec()), t)
    }
    pub fn vk_ctx(finder: NearestStatementFinder) -> InterpretOneContext {
        InterpretOneContext { halt: false, error_handler: ErrorHandler::None, opt_next_index: None, nearest_statement_finder: finder }
    }
"""


CTX_FILE = "rusty_basic/src/interpreter/context.rs"
CTX_HELPER = """
    /// number of activation states (1 = only the main module)
    pub fn vk_depth(c: &Context) -> usize { c.states.len() }
"""


def context_helper(b):
    ctx = b.file(CTX_FILE, "rusty_basic", "interpreter::context")
    b.helper(ctx, CTX_HELPER)
    ee = b.file("rusty_basic/src/error_envelope.rs", "rusty_basic", "error_envelope")
    b.helper(ee, """
    /// the positions carried by an error: the failing statement, then the call sites
    pub fn vk_trace<T>(e: &ErrorEnvelope<T>) -> &Vec<Position> { &e.1 }
""")


VM_STUBS = [("crate::interpreter::built_ins::run_sub", "vk_no_sub"), ("crate::interpreter::built_ins::run_function", "vk_no_function")]


def control_steps(b, rel, prefix):
    """One concrete instruction per instance (a symbolic instruction kind makes CBMC walk every arm of interpret_one,
    including the hash-map based ones: no verdict in 600 s); the machine state and the operands are symbolic."""
    setup_gosub = """
        let mut vm = vk_vm();
        // an arbitrary GOSUB history: the addresses of the GOSUBs not yet returned from, oldest first
        let depth: usize = kani::any();
        kani::assume(depth <= 3);
        let addrs: [usize; 3] = kani::any();
        let mut k = 0usize;
        while k < 3 { kani::assume(addrs[k] < 1000); if k < depth { vm.go_sub_address_stack.push(addrs[k]); } k += 1; }
        let (finder, _t) = vk_finder();
        let mut ctx = vk_ctx(finder);
        let i: usize = kani::any();
        kani::assume(i < 1000);
        let target: usize = kani::any();
        let pos = Position::new(3, 4);
    """
    older = """
        // the older GOSUB entries are untouched
        let mut k = 0usize;
        while k < 3 { if k + 1 < depth { assert!(vm.go_sub_address_stack[k] == addrs[k]); } k += 1; }
        std::mem::forget(vm);
        std::mem::forget(ctx);
    """
    b.add(rel, prefix + "_vm_gosub_step", setup_gosub + """
        // GOSUB continues at its label and remembers where it came from
        let instruction = Instruction::GoSub(AddressOrLabel::Resolved(target));
        match vm.interpret_one(i, &instruction, pos, &mut ctx) { Ok(()) => {}, Err(e) => { std::mem::forget(e); assert!(false); } }
        std::mem::forget(instruction);
        assert!(ctx.opt_next_index == Some(target));
        assert!(vm.go_sub_address_stack.len() == depth + 1 && vm.go_sub_address_stack[depth] == i);
        """ + older, unwind=6, cost=120, stubs=VM_STUBS,
          bounds="GOSUB histories of depth 0..3 with any addresses < 1000; any statement-address table of 3 marks; any target",
          functions=["rusty_basic::interpreter::main::Interpreter::interpret_one (Instruction::GoSub)"])
    for kind, instr, want in (("return", "Instruction::Return(None)", "addrs[depth - 1] + 1"),
                              ("return_label", "Instruction::Return(Some(AddressOrLabel::Resolved(target)))", "target")):
        b.add(rel, prefix + "_vm_%s_step" % kind, setup_gosub + """
        let instruction = %s;
        let r = vm.interpret_one(i, &instruction, pos, &mut ctx);
        std::mem::forget(instruction);
        if depth == 0 {
            // RETURN without GOSUB: error 3 at the RETURN statement
            match r {
                Err(e) => { assert!(*e.err() == RuntimeError::ReturnWithoutGoSub && e.err().get_code() == 3); std::mem::forget(e); }
                Ok(()) => assert!(false),
            }
            assert!(ctx.opt_next_index.is_none());
        } else {
            match r { Ok(()) => {}, Err(e) => { std::mem::forget(e); assert!(false); } }
            // continues after the most recent GOSUB not yet returned from (or at the label of RETURN label)
            assert!(ctx.opt_next_index == Some(%s));
            assert!(vm.go_sub_address_stack.len() == depth - 1);
        }
        """ % (instr, want) + older, unwind=6, cost=120, stubs=VM_STUBS,
              bounds="GOSUB histories of depth 0..3 with any addresses < 1000; any statement-address table of 3 marks",
              functions=["rusty_basic::interpreter::main::Interpreter::interpret_one (Instruction::Return)"])
    for kind, instr, want in (("resume", "Instruction::Resume", "want_current"), ("resume_next", "Instruction::ResumeNext", "want_next"),
                              ("resume_label", "Instruction::ResumeLabel(AddressOrLabel::Resolved(target))", "Some(target)")):
        b.add(rel, prefix + "_vm_%s_step" % kind, """
        let mut vm = vk_vm();
        vm.context.push_error_handler_context();           // the state the error dispatch leaves behind
        let failed: Option<usize> = if kani::any() { let a: usize = kani::any(); Some(a) } else { None };
        let (finder, t) = vk_finder();
        if let Some(a) = failed { kani::assume(t[0] <= a && a <= t[2]); }
        vm.last_error_address = failed;
        vm.last_error_code = Some(11);
        let want_current = failed.map(|a| finder.find_current(a));
        let want_next = failed.map(|a| finder.find_next(a));
        let mut ctx = vk_ctx(finder);
        let target: usize = kani::any();
        let instruction = %(instr)s;
        let r = vm.interpret_one(7, &instruction, Position::new(9, 1), &mut ctx);
        std::mem::forget(instruction);
        match failed {
            None => match r {
                // RESUME outside a handler: error 20
                Err(e) => { assert!(*e.err() == RuntimeError::ResumeWithoutError && e.err().get_code() == 20); std::mem::forget(e); }
                Ok(()) => assert!(false),
            },
            Some(_) => {
                match r { Ok(()) => {}, Err(e) => { std::mem::forget(e); assert!(false); } }
                // RESUME re-executes the failing statement, RESUME NEXT continues with the one after it, RESUME label at the label
                assert!(ctx.opt_next_index == %(want)s);
                assert!(crate::interpreter::context::%(mod)s::vk_depth(&vm.context) == 1);      // the handler's context is popped
            }
        }
        // each form clears ERR and the pending error
        assert!(vm.last_error_code.is_none() && vm.last_error_address.is_none());
        std::mem::forget(vm);
        std::mem::forget(ctx);
        """ % {"mod": b.module, "instr": instr, "want": want}, unwind=6, cost=200, core=False, stubs=VM_STUBS,
              bounds="any failing address inside any statement-address table of 3 marks, or no pending error",
              functions=["rusty_basic::interpreter::main::Interpreter::interpret_one (Instruction::%s)" % instr.split("::")[1].split("(")[0],
                         "rusty_basic::interpreter::main::Interpreter::take_last_error_address", "rusty_basic::interpreter::context::Context::pop"])
    for kind, instr, check in (
        ("on_error_goto", "Instruction::OnErrorGoTo(AddressOrLabel::Resolved(target))",
         "ctx.error_handler == ErrorHandler::Address(target) && ctx.opt_next_index.is_none() && !ctx.halt"),
        ("on_error_resume_next", "Instruction::OnErrorResumeNext", "ctx.error_handler == ErrorHandler::Next && ctx.opt_next_index.is_none() && !ctx.halt"),
        ("on_error_goto_zero", "Instruction::OnErrorGoToZero", "ctx.error_handler == ErrorHandler::None && ctx.opt_next_index.is_none() && !ctx.halt"),
        ("jump", "Instruction::Jump(AddressOrLabel::Resolved(target))", "ctx.error_handler == before && ctx.opt_next_index == Some(target) && !ctx.halt"),
        ("halt", "Instruction::Halt", "ctx.error_handler == before && ctx.opt_next_index.is_none() && ctx.halt"),
    ):
        b.add(rel, prefix + "_vm_%s_step" % kind, """
        let mut vm = vk_vm();
        let (finder, _t) = vk_finder();
        let mut ctx = vk_ctx(finder);
        let target: usize = kani::any();
        let h: usize = kani::any();
        ctx.error_handler = if kani::any() { ErrorHandler::Address(h) } else if kani::any() { ErrorHandler::Next } else { ErrorHandler::None };
        let before = ctx.error_handler;
        let instruction = %s;
        match vm.interpret_one(2, &instruction, Position::new(1, 1), &mut ctx) { Ok(()) => {}, Err(e) => { std::mem::forget(e); assert!(false); } }
        std::mem::forget(instruction);
        assert!(%s);
        assert!(vm.go_sub_address_stack.is_empty() && vm.last_error_address.is_none());
        std::mem::forget(vm);
        std::mem::forget(ctx);
        """ % (instr, check), unwind=6, cost=100, stubs=VM_STUBS,
              bounds="any previous handler state, any target address",
              functions=["rusty_basic::interpreter::main::Interpreter::interpret_one (Instruction::%s)" % instr.split("::")[1].split("(")[0]])


def dispatch_runs(b, rel, prefix):
    """Interpreter::interpret on a control-only program: one failing statement, symbolic error kind."""
    for mode, first, expect in (
        ("goto_handler", "Instruction::OnErrorGoTo(AddressOrLabel::Resolved(3))", """
                // handler active: control goes to the handler with ERR set and the failing address remembered for RESUME
                match r { Ok(()) => {}, Err(e) => { std::mem::forget(e); assert!(false); } }
                assert!(vm.last_error_code == Some(code));
                assert!(vm.last_error_address == Some(1));
                assert!(crate::interpreter::context::%(mod)s::vk_depth(&vm.context) == 2);"""),
        ("resume_next", "Instruction::OnErrorResumeNext", """
                // ON ERROR RESUME NEXT: continue with the next statement, ERR set
                match r { Ok(()) => {}, Err(e) => { std::mem::forget(e); assert!(false); } }
                assert!(vm.last_error_code == Some(code));
                assert!(vm.last_error_address.is_none());"""),
        ("no_handler", "Instruction::OnErrorGoToZero", """
                // no handler: the error ends the program and is reported with its position
                match r {
                    Err(e) => {
                        assert!(e.err().get_code() == code);
                        { let tr = crate::error_envelope::%(mod)s::vk_trace(&e); assert!(tr.len() == 1 && tr[0] == p(2)); }
                        std::mem::forget(e);
                    }
                    Ok(()) => assert!(false),
                }"""),
    ):
        b.add(rel, prefix + "_vm_dispatch_%s" % mode, ("""
        // 0: ON ERROR <mode>   1: Throw(E)   2: Halt (statement after the failing one)   3: Halt (handler)   4: Halt
        let ek: u8 = kani::any();
        kani::assume(ek < 4);
        let err = match ek { 0 => RuntimeError::Overflow, 1 => RuntimeError::DivisionByZero, 2 => RuntimeError::SubscriptOutOfRange,
                             _ => RuntimeError::IllegalFunctionCall };
        let code = match ek { 0 => 6, 1 => 11, 2 => 9, _ => 5 };
        let p = |r: u32| Position::new(r, 1);
        let instructions = vec![(%(first)s).at_pos(p(1)), Instruction::Throw(err).at_pos(p(2)), Instruction::Halt.at_pos(p(3)),
                                Instruction::Halt.at_pos(p(4)), Instruction::Halt.at_pos(p(5))];
        let mut vm = vk_vm();
        let r = vm.interpret(InstructionGeneratorResult { instructions, statement_addresses: vec![0, 1, 2, 3, 4] });
        """ + expect + """
        std::mem::forget(vm);
        """) % {"mod": b.module, "first": first}, unwind=8, cost=300, core=False, stubs=VM_STUBS,
              bounds="one failing statement of four error kinds in a five-instruction control-only program",
              functions=["rusty_basic::interpreter::main::Interpreter::interpret (error dispatch)",
                         "rusty_basic::interpreter::context::Context::push_error_handler_context"])


def call_stack_steps(b, rel, prefix):
    b.add(rel, prefix + "_vm_pop_stack_step", """
        let mut vm = vk_vm();
        // call-site stack, innermost first, of depth 1..3
        let depth: usize = kani::any();
        kani::assume(depth >= 1 && depth <= 3);
        let rows: [u16; 3] = kani::any();
        let mut k = 0usize;
        while k < 3 { if k < depth { vm.stacktrace.push(Position::new(rows[k] as u32 + 1, 1)); } k += 1; }
        vm.context.push_error_handler_context();           // a normal (non-argument) activation to return from
        let (finder, _t) = vk_finder();
        let mut ctx = vk_ctx(finder);
        match vm.interpret_one(4, &Instruction::PopStack, Position::new(8, 1), &mut ctx) { Ok(()) => {}, Err(e) => { std::mem::forget(e); assert!(false); } }
        // returning from a call removes the innermost call site and keeps the others in order
        assert!(vm.stacktrace.len() == depth - 1);
        let mut k = 0usize;
        while k < 3 { if k + 1 < depth { assert!(vm.stacktrace[k] == Position::new(rows[k + 1] as u32 + 1, 1)); } k += 1; }
        assert!(crate::interpreter::context::%(mod)s::vk_depth(&vm.context) == 1);
        std::mem::forget(vm);
        std::mem::forget(ctx);
        """ % {"mod": b.module}, unwind=6, cost=150, stubs=VM_STUBS, core=False,
          bounds="call-site stacks of depth 1..3, any rows",
          functions=["rusty_basic::interpreter::main::Interpreter::interpret_one (Instruction::PopStack)", "rusty_basic::interpreter::context::Context::pop"])
