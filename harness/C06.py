"""C06 - a numeric variable only ever holds a value of its own type and range (DESIGN 4/C06).

(a) conversions  CastVariant::cast for all 16 numeric source/target pairs, full width
(b) closure      Variant::{plus,minus,multiply,divide,modulo,negate,unary_not} for all tag pairs, full width
(c) agreement    static result type (cast_binary_op_q) = dynamic result tag
"""
import os
from vklib import Builder

T = "ILSD"
NAME = {"I": "INTEGER", "L": "LONG", "S": "SINGLE", "D": "DOUBLE"}
TAG = {"I": 0, "L": 1, "S": 2, "D": 3}
QUAL = {"I": "TypeQualifier::PercentInteger", "L": "TypeQualifier::AmpersandLong", "S": "TypeQualifier::BangSingle",
        "D": "TypeQualifier::HashDouble"}
RANGE = {"I": ("-32768i64", "32767i64"), "L": ("-2147483648i64", "2147483647i64")}

HELPERS = """
    pub fn vk_valid(v: &Variant) -> bool {
        match v {
            Variant::VInteger(i) => *i >= -32768 && *i <= 32767,
            Variant::VLong(l) => *l >= -2147483648 && *l <= 2147483647,
            Variant::VSingle(f) => f.is_finite(),
            Variant::VDouble(d) => d.is_finite(),
            _ => false,
        }
    }
    pub fn vk_tag(v: &Variant) -> u8 {
        match v {
            Variant::VInteger(_) => 0,
            Variant::VLong(_) => 1,
            Variant::VSingle(_) => 2,
            Variant::VDouble(_) => 3,
            _ => 9,
        }
    }
    /// the numeric value, exact in f64 for all four numeric types
    pub fn vk_num(v: &Variant) -> f64 {
        match v {
            Variant::VInteger(i) => *i as f64,
            Variant::VLong(l) => *l as f64,
            Variant::VSingle(f) => *f as f64,
            Variant::VDouble(d) => *d,
            _ => 0.0,
        }
    }
    pub fn vk_int(v: &Variant) -> i64 {
        match v {
            Variant::VInteger(i) => *i as i64,
            Variant::VLong(l) => *l,
            _ => 0,
        }
    }
"""


def gen(n, t):
    """rust statements creating a symbolic valid value `{n}v` of type t with raw value `{n}`"""
    if t == "I":
        return "let %s: i16 = kani::any(); let %sv = Variant::VInteger(%s as i32);" % (n, n, n)
    if t == "L":
        return "let %s: i32 = kani::any(); let %sv = Variant::VLong(%s as i64);" % (n, n, n)
    if t == "S":
        return "let %s: f32 = kani::any(); kani::assume(%s.is_finite()); let %sv = Variant::VSingle(%s);" % (n, n, n, n)
    return "let %s: f64 = kani::any(); kani::assume(%s.is_finite()); let %sv = Variant::VDouble(%s);" % (n, n, n, n)


def bigger(x, y):
    if "D" in (x, y):
        return "D"
    if "S" in (x, y):
        return "S"
    if "L" in (x, y):
        return "L"
    return "I"


OPS = {"plus": "+", "minus": "-", "multiply": "*", "divide": "/", "modulo": "%"}
OPNAME = {"plus": "Operator::Plus", "minus": "Operator::Minus", "multiply": "Operator::Multiply",
          "divide": "Operator::Divide", "modulo": "Operator::Modulo"}


def is_int(t):
    return t in "IL"


def closure_body(op, x, y, value=False, exact=True):
    big = bigger(x, y)
    sym = OPS[op]
    pre = gen("a", x) + "\n" + gen("b", y) + "\n"
    fl = "f64" if big == "D" else "f32"
    ok, ovf, dz = [], [], ["assert!(false);"]
    ok.append("assert!(vk_valid(&r));")
    if op in ("plus", "minus", "multiply"):
        # SAT solvers cannot see that a multiplier is commutative: write the reference product with its operands in the
        # order the implementation uses (the float operand first, SINGLE before DOUBLE, INTEGER before LONG)
        l, r = "a", "b"
        if op == "multiply" and "SDIL".index(y) < "SDIL".index(x):
            l, r = "b", "a"
        if is_int(x) and is_int(y):
            lo, hi = RANGE[big]
            pre += "let exact: i64 = (%s as i64) %s (%s as i64);\n" % (l, sym, r)
            ok.append("assert!(vk_tag(&r) == %d);" % TAG[big])
            ok.append("assert!(vk_int(&r) == exact);")
            ovf.append("assert!(exact < %s || exact > %s);" % (lo, hi))
        else:
            ok.append("assert!(vk_tag(&r) == %d);" % TAG[big])
            if exact:
                pre += "let ieee = (%s as %s) %s (%s as %s);\n" % (l, fl, sym, r, fl)
                ovf.append("assert!(!ieee.is_finite());")      # Overflow only if the IEEE result does not fit
    elif op == "divide":
        # the dynamic result is re-tagged by value (FitToType): any numeric tag, value within 0.0001 of the quotient
        qfl = "f64" if "D" in (x, y) else "f32"
        if value:
            pre += "let q = ((a as %s) / (b as %s)) as f64;\n" % (qfl, qfl)
            ok.append("assert!((vk_num(&r) - q).abs() <= 0.00011);")
            ovf.append("assert!(!q.is_finite());")
        elif is_int(x) and is_int(y):
            ovf.append("assert!(false);")      # the quotient of two integers is finite
        if is_int(y):
            dz = ["assert!(b == 0);"]
        else:
            dz = ["assert!((b as f64).abs() < 0.00001001);"]
    else:  # modulo
        ok.append("assert!(vk_tag(&r) == 0);")
        if is_int(x) and is_int(y) and exact:
            ok.append("assert!(vk_int(&r) == (a as i64) % (b as i64));")
        # this implementation raises Overflow whenever a rounded operand is outside the INTEGER range
        ovf.append("assert!((a as f64) >= 32767.5 || (a as f64) <= -32768.5 || (b as f64) >= 32767.5 || (b as f64) <= -32768.5);")
        if is_int(y):
            dz = ["assert!(b == 0);"]
        else:
            dz = ["assert!((b as f64).abs() <= 0.5);"]
    body = pre + """match av.%s(bv) {
    Ok(r) => {
        %s
        std::mem::forget(r);
    }
    Err(VariantError::Overflow) => { %s }
    Err(VariantError::DivisionByZero) => { %s }
    Err(VariantError::TypeMismatch) => { assert!(false); }
}""" % (op, "\n        ".join(ok), " ".join(ovf) or "", " ".join(dz))
    return body


def cast_body(x, y):
    pre = gen("a", x) + "\n"
    ok = ["assert!(vk_c06::vk_tag(&r) == %d);" % TAG[y], "assert!(vk_c06::vk_valid(&r));"]
    ovf = []
    if is_int(y):
        lo, hi = RANGE[y]
        if is_int(x):
            ok.append("assert!(vk_c06::vk_int(&r) == a as i64);")
            ovf.append("assert!((a as i64) < %s || (a as i64) > %s);" % (lo, hi))
        else:
            # round to nearest, either tie rule
            ok.append("assert!((vk_c06::vk_num(&r) - (a as f64)).abs() <= 0.5);")
            ovf.append("assert!((a as f64) >= (%s as f64) + 0.5 || (a as f64) <= (%s as f64) - 0.5);" % (hi, lo))
    else:
        fl = "f32" if y == "S" else "f64"
        ok.append("assert!(vk_c06::vk_num(&r) == ((a as %s) as f64));" % fl)
        ovf.append("assert!(!(a as %s).is_finite());" % fl)
    return pre + """match av.cast(%s) {
    Ok(r) => {
        %s
        std::mem::forget(r);
    }
    Err(LintError::Overflow) => { %s }
    Err(e) => { std::mem::forget(e); assert!(false); }
}""" % (QUAL[y], "\n        ".join(ok), " ".join(ovf) or "assert!(false);")


def agree_body(op, x, y):
    pre = gen("a", x) + "\n" + gen("b", y) + "\n"
    return pre + """let st = cast_binary_op_q(%s, %s, %s);
match av.%s(bv) {
    Ok(r) => {
        let t = vk_c06::vk_tag(&r);
        std::mem::forget(r);
        match st {
            Some(TypeQualifier::PercentInteger) => assert!(t == 0),
            Some(TypeQualifier::AmpersandLong) => assert!(t == 1),
            Some(TypeQualifier::BangSingle) => assert!(t == 2),
            Some(TypeQualifier::HashDouble) => assert!(t == 3),
            _ => assert!(false),      // the checker accepts every numeric pair
        }
    }
    Err(e) => { std::mem::forget(e); assert!(st.is_some()); }
}""" % (QUAL[x], QUAL[y], OPNAME[op], op)


def spec(tier, seed):
    b = Builder("C06")
    var = b.file("rusty_variant/src/variant.rs", "rusty_variant", "variant")
    b.helper(var, HELPERS)
    # the helper functions are also needed from rusty_linter: expose them through a second copy there
    qb = b.file("rusty_linter/src/core/qb_casting.rs", "rusty_linter", "core::qb_casting")
    b.helper(qb, "    pub mod vk_c06 {\n        use rusty_variant::Variant;\n" + HELPERS + "    }\n")
    cs = b.file("rusty_linter/src/core/casting.rs", "rusty_linter", "core::casting",
                uses="    use rusty_variant::{Variant, VariantError};\n")
    b.helper(cs, "    pub mod vk_c06 {\n        use rusty_variant::Variant;\n" + HELPERS + "    }\n")

    # (a) conversions
    for x in T:
        for y in T:
            fl = not is_int(x)
            b.add(qb, "vk_c06_cast_%s_to_%s" % (x, y), cast_body(x, y), unwind=2, exhaustive=True,
                  cost=40 if fl and is_int(y) else 5,
                  bounds="every valid %s value (full width)" % NAME[x],
                  functions=["rusty_linter::core::CastVariant::cast", "rusty_linter::core::QBNumberCast::try_cast"])

    # (b) closure of the arithmetic
    for op in OPS:
        for x in T:
            for y in T:
                ints = is_int(x) and is_int(y)
                # measured in a full thorough run: float `/` (validity) 6-9 s per pair, float MOD 120-270 s per pair
                hard = op == "modulo" and not ints
                # a second multiplier / remainder circuit in the oracle makes the SAT problem an equivalence check of two
                # circuits (float *: > 600 s with CaDiCaL, 15 s .. > 600 s with kissat; INTEGER MOD: 440-580 s): the quick
                # instance asserts validity, tag and the error classes only, the exact variant is a thorough instance
                second_circuit = (op == "multiply" and not ints) or (op == "modulo" and ints)
                b.add(var, "vk_c06_%s_%s_%s" % (op, x, y), closure_body(op, x, y, exact=not second_circuit), unwind=2, exhaustive=True,
                      tier="thorough" if hard else "quick", core=True,
                      cost=250 if hard else (150 if op == "modulo" else 30 if op == "divide" else 8),
                      bounds="every valid %s x %s pair (full width)" % (NAME[x], NAME[y]),
                      functions=["rusty_variant::Variant::" + op] + (["rusty_variant::fit::FitToType"] if op in ("divide", "modulo") else []))
                if second_circuit:
                    fast = op == "multiply" and (x, y) in (("S", "S"), ("S", "I"), ("I", "S"), ("S", "D"), ("D", "S"))     # 6-8 s with kissat
                    b.add(var, "vk_c06_%s_exact_%s_%s" % (op, x, y), closure_body(op, x, y, exact=True), unwind=2, exhaustive=True,
                          tier="quick" if fast else "thorough", core=fast, cost=20 if fast else 500, solver="kissat" if op == "multiply" else None,
                          bounds="every valid %s x %s pair (full width); exact result / Overflow only if the IEEE product is not finite"
                                 % (NAME[x], NAME[y]),
                          functions=["rusty_variant::Variant::" + op])
    # value of the quotient (second division in the oracle: hard for the SAT solver, thorough and non-core)
    for x in T:
        for y in T:
            b.add(var, "vk_c06_divide_value_%s_%s" % (x, y), closure_body("divide", x, y, value=True), unwind=2, exhaustive=True,
                  tier="thorough", core=False, cost=400,
                  bounds="every valid %s x %s pair (full width)" % (NAME[x], NAME[y]),
                  functions=["rusty_variant::Variant::divide", "rusty_variant::fit::FitToType"])
    for x in T:
        for op in ("negate", "unary_not"):
            extra = ""
            if is_int(x):
                lo, hi = RANGE[x]
                want = "-(a as i64)" if op == "negate" else "-(a as i64) - 1"
                extra = "assert!(vk_int(&r) == %s);" % want
                ovf = "assert!((%s) < %s || (%s) > %s);" % (want, lo, want, hi)
            else:
                ovf = "assert!(false);"
            b.add(var, "vk_c06_%s_%s" % (op, x), gen("a", x) + """
match av.%s() {
    Ok(r) => {
        assert!(vk_valid(&r));
        assert!(vk_tag(&r) == %d);
        %s
        std::mem::forget(r);
    }
    Err(VariantError::Overflow) => { %s }
    Err(_) => { assert!(false); }
}""" % (op, TAG[x], extra, ovf), unwind=2, exhaustive=True, cost=5,
                  bounds="every valid %s value (full width)" % NAME[x], functions=["rusty_variant::Variant::" + op])

    # (c) static type = dynamic tag
    for op in OPS:
        for x in T:
            for y in T:
                ints = is_int(x) and is_int(y)
                if op == "divide":
                    # known finding C06-F1: `/` is typed like + - * but its result is re-tagged by value
                    t = "quick" if (x, y) in (("I", "I"), ("S", "S")) else "thorough"
                    b.add(cs, "vk_c06_agree_divide_%s_%s" % (x, y), agree_body(op, x, y), unwind=2, exhaustive=True,
                          tier=t, cost=5, finding="C06-F1",
                          bounds="every valid %s x %s pair (full width)" % (NAME[x], NAME[y]),
                          functions=["rusty_linter::core::casting::cast_binary_op_q", "rusty_variant::Variant::divide"],
                          basic="A% = 1 / 3\nPRINT A%   ' prints .3333333: the static type of 1 / 3 is INTEGER, so no Cast is emitted")
                    continue
                hard = op == "modulo" and not ints
                b.add(cs, "vk_c06_agree_%s_%s_%s" % (op, x, y), agree_body(op, x, y), unwind=2, exhaustive=True,
                      tier="thorough" if hard else "quick", core=not hard, cost=200 if hard else 5,
                      bounds="every valid %s x %s pair (full width)" % (NAME[x], NAME[y]),
                      functions=["rusty_linter::core::casting::cast_binary_op_q", "rusty_linter::core::casting::bigger_numeric_type",
                                 "rusty_variant::Variant::" + op])

    return b.build(
        tier,
        bounds="none on values: every harness instance spans all valid values of its operand types (i16 / i32 / finite f32 / "
               "finite f64); one instance per (operation, tag pair). quick: 16 casts, + - * / negate NOT on all pairs, MOD on the "
               "four INTEGER/LONG pairs, agreement for + - * (all pairs) and MOD (integer pairs), exact float products for five pairs; thorough adds "
               "float MOD, the remaining exact products / remainders and the value of the quotient (non-core: undecided at the 1200 s cap)",
        outside="that every route into a variable (FOR counters, parameters, READ, INPUT, VAL) passes through these functions; "
                "the exact float results of + - * (only finiteness and the tag are asserted)",
        assumptions=["operands are valid values of their tag (the invariant itself): the closure harnesses are the inductive step"],
    )
