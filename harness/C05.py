"""C05 - GOTO/GOSUB/RETURN, ON ERROR/RESUME: resume-address and error-code kernels (DESIGN 4/C05)."""
from vklib import Builder
import vmstep
import vmctl
import slicer

# every variant of RuntimeError, constructed with the smallest payload
RT_VARIANTS = """
    pub const VK_N_RUNTIME_ERRORS: u8 = 22;
    pub fn vk_runtime_error(k: u8) -> RuntimeError {
        match k {
            0 => RuntimeError::BadFileMode,
            1 => RuntimeError::BadFileNameOrNumber,
            2 => RuntimeError::BadRecordLength,
            3 => RuntimeError::BadRecordNumber,
            4 => RuntimeError::DivisionByZero,
            5 => RuntimeError::ElementNotDefined,
            6 => RuntimeError::FieldOverflow,
            7 => RuntimeError::FileAlreadyOpen,
            8 => RuntimeError::FileNotFound,
            9 => RuntimeError::ForLoopZeroStep,
            10 => RuntimeError::DeviceIOError(String::new()),
            11 => RuntimeError::IllegalFunctionCall,
            12 => RuntimeError::InputPastEndOfFile,
            13 => RuntimeError::LinterError(LintError::NotFiniteNumber),
            14 => RuntimeError::OutOfData,
            15 => RuntimeError::Overflow,
            16 => RuntimeError::ReturnWithoutGoSub,
            17 => RuntimeError::SubscriptOutOfRange,
            18 => RuntimeError::TypeMismatch,
            19 => RuntimeError::VariableRequired,
            20 => RuntimeError::Other(String::new()),
            _ => RuntimeError::ResumeWithoutError,
        }
    }
    /// the exhaustive match makes the harness stop compiling if a variant is added without extending vk_runtime_error
    pub fn vk_variant_index(e: &RuntimeError) -> u8 {
        match e {
            RuntimeError::BadFileMode => 0,
            RuntimeError::BadFileNameOrNumber => 1,
            RuntimeError::BadRecordLength => 2,
            RuntimeError::BadRecordNumber => 3,
            RuntimeError::DivisionByZero => 4,
            RuntimeError::ElementNotDefined => 5,
            RuntimeError::FieldOverflow => 6,
            RuntimeError::FileAlreadyOpen => 7,
            RuntimeError::FileNotFound => 8,
            RuntimeError::ForLoopZeroStep => 9,
            RuntimeError::DeviceIOError(_) => 10,
            RuntimeError::IllegalFunctionCall => 11,
            RuntimeError::InputPastEndOfFile => 12,
            RuntimeError::LinterError(_) => 13,
            RuntimeError::OutOfData => 14,
            RuntimeError::Overflow => 15,
            RuntimeError::ReturnWithoutGoSub => 16,
            RuntimeError::SubscriptOutOfRange => 17,
            RuntimeError::TypeMismatch => 18,
            RuntimeError::VariableRequired => 19,
            RuntimeError::Other(_) => 20,
            RuntimeError::ResumeWithoutError => 21,
        }
    }
"""


def error_code_harnesses(b, err, prefix):
    b.helper(err, RT_VARIANTS)
    b.add(err, prefix + "_get_code_total", """
        let k: u8 = kani::any();
        kani::assume(k < VK_N_RUNTIME_ERRORS);
        let e = vk_runtime_error(k);
        assert!(vk_variant_index(&e) == k);
        let code = e.get_code();          // must return, for every variant: no panic
        assert!(code > 0);
        std::mem::forget(e);
        """, unwind=2, exhaustive=True, cost=5,
          bounds="all 22 RuntimeError variants (payload: empty string / one LintError)",
          functions=["rusty_basic::interpreter::error::RuntimeError::get_code"],
          basic="ON ERROR GOTO H\nREAD A\nEND\nH: PRINT ERR: RESUME NEXT")
    b.add(err, prefix + "_get_code_qbasic", """
        // the codes the property statement names
        assert!(RuntimeError::ReturnWithoutGoSub.get_code() == 3);
        assert!(RuntimeError::IllegalFunctionCall.get_code() == 5);
        assert!(RuntimeError::Overflow.get_code() == 6);
        assert!(RuntimeError::SubscriptOutOfRange.get_code() == 9);
        assert!(RuntimeError::DivisionByZero.get_code() == 11);
        assert!(RuntimeError::TypeMismatch.get_code() == 13);
        assert!(RuntimeError::ResumeWithoutError.get_code() == 20);
        assert!(RuntimeError::BadFileNameOrNumber.get_code() == 52);
        assert!(RuntimeError::FileNotFound.get_code() == 53);
        assert!(RuntimeError::FileAlreadyOpen.get_code() == 55);
        assert!(RuntimeError::InputPastEndOfFile.get_code() == 62);
        // no other error is reported under one of these codes (ERR would be ambiguous for a handler)
        let i: u8 = kani::any();
        kani::assume(i < VK_N_RUNTIME_ERRORS);
        let a = vk_runtime_error(i);
        let named = match i { 16 | 11 | 15 | 17 | 4 | 18 | 21 | 1 | 8 | 7 | 12 => true, _ => false };
        let code = a.get_code();
        let is_named_code = code == 3 || code == 5 || code == 6 || code == 9 || code == 11 || code == 13 || code == 20
            || code == 52 || code == 53 || code == 55 || code == 62;
        assert!(named == is_named_code);
        std::mem::forget(a);
        """, unwind=2, exhaustive=True, cost=5,
          bounds="all 22 RuntimeError variants against the eleven codes named by the property",
          functions=["rusty_basic::interpreter::error::RuntimeError::get_code"])


def spec(tier, seed):
    b = Builder("C05")
    main = b.file("rusty_basic/src/interpreter/main.rs", "rusty_basic", "interpreter::main",
                  uses="    use crate::instruction_generator::AddressOrLabel;\n")
    sizes = [1, 2, 3, 4] + ([5, 6, 7] if tier == "thorough" else [])
    for n in [1, 2, 3, 4, 5, 6, 7]:
        t = "quick" if n <= 4 else "thorough"
        b.add(main, "vk_c05_resume_address_n%d" % n, """
        let t: [usize; %(n)d] = kani::any();
        let mut k = 0usize;
        while k < %(n)d {
            kani::assume(t[k] < 256);
            if k > 0 { kani::assume(t[k - 1] <= t[k]); }      // what mark_statement_address produces
            k += 1;
        }
        let a: usize = kani::any();
        kani::assume(t[0] <= a && a <= t[%(n)d - 1]);           // the failing instruction lies inside a marked statement
        let finder = NearestStatementFinder::new(t.to_vec());
        let cur = finder.find_current(a);
        let next = finder.find_next(a);
        // reference: RESUME = greatest mark <= a ; RESUME NEXT = least mark > a, one past the last mark if none
        let mut want_cur = t[0];
        let mut want_next = t[%(n)d - 1] + 1;
        let mut k = %(n)d;
        while k > 0 {
            k -= 1;
            if t[k] > a { want_next = t[k]; }
        }
        let mut k = 0usize;
        while k < %(n)d {
            if t[k] <= a { want_cur = t[k]; }
            k += 1;
        }
        assert!(cur == want_cur);
        assert!(next == want_next);
        assert!(cur <= a && next > a);
        std::mem::forget(finder);
        """ % {"n": n}, unwind=n + 2, tier=t, cost=5 + 3 * n,
              bounds="non-decreasing statement-address tables of exactly %d entries (duplicates allowed), addresses < 256, "
                     "any failing address between the first and the last mark" % n,
              functions=["rusty_basic::interpreter::main::NearestStatementFinder::new",
                         "rusty_basic::interpreter::main::NearestStatementFinder::find_current",
                         "rusty_basic::interpreter::main::NearestStatementFinder::find_next"])

    # (one-VM-step harnesses over Interpreter::interpret_one were built and probed - harness/vmstep.py - but symbolic execution
    # alone did not finish in 600 s: CBMC walks every arm of the 90-way instruction match, including the hash-map based ones,
    # even when the instruction is concrete.  They are not part of the check; see DESIGN 4/C05.)

    notes = []
    try:
        vmctl.add(b, "vk_c05", [(g, m) for g in ("gosub", "errors") for m in (1, 2, 3, 4)])
    except slicer.SliceError as e:
        notes.append("the control arms of interpret_one could not be sliced from the current tree (%s): vk_c05_vm_step_* missing from this run" % e)

    err = b.file("rusty_basic/src/interpreter/error.rs", "rusty_basic", "interpreter::error")
    error_code_harnesses(b, err, "vk_c05")
    b.add(err, "vk_c05_error_conversions", """
        assert!(RuntimeError::from(VariantError::Overflow) == RuntimeError::Overflow);
        assert!(RuntimeError::from(VariantError::TypeMismatch) == RuntimeError::TypeMismatch);
        assert!(RuntimeError::from(VariantError::DivisionByZero) == RuntimeError::DivisionByZero);
        assert!(RuntimeError::from(LintError::Overflow) == RuntimeError::Overflow);
        assert!(RuntimeError::from(LintError::TypeMismatch) == RuntimeError::TypeMismatch);
        assert!(RuntimeError::from(LintError::DivisionByZero) == RuntimeError::DivisionByZero);
        assert!(RuntimeError::from(SubscriptOutOfRangeError) == RuntimeError::SubscriptOutOfRange);
        assert!(RuntimeError::from(VariantError::Overflow).get_code() == 6);
        assert!(RuntimeError::from(VariantError::TypeMismatch).get_code() == 13);
        assert!(RuntimeError::from(VariantError::DivisionByZero).get_code() == 11);
        assert!(RuntimeError::from(SubscriptOutOfRangeError).get_code() == 9);
        // any other checker error still has a code
        let other = RuntimeError::from(LintError::NotFiniteNumber);
        assert!(other.get_code() > 0);
        std::mem::forget(other);
        """, unwind=2, exhaustive=True, cost=5,
          bounds="the three VariantError variants, the corresponding LintError variants, SubscriptOutOfRangeError",
          functions=["rusty_basic::interpreter::error::From<VariantError> for RuntimeError",
                     "rusty_basic::interpreter::error::From<LintError> for RuntimeError",
                     "rusty_basic::interpreter::error::From<SubscriptOutOfRangeError> for RuntimeError"])

    return b.build(
        tier,
        notes=notes,
        stubs=[vmctl.STUB_NOTE],
        bounds="statement-address tables of 1..4 entries (quick) / 1..7 (thorough), addresses < 256; the RuntimeError enum exhaustively",
        outside="GOSUB/RETURN stack, handler dispatch and context push/pop in Interpreter::interpret; loop registers surviving a GOTO; "
                "variables after a handled error; that the generator's marks really are non-decreasing and bracket every failing instruction",
        assumptions=["the statement-address table is non-decreasing and the failing address lies between its first and last entry "
                     "(mark_statement_address pushes instruction counts in generation order; the last mark precedes Halt/PopRet)"],
    )
