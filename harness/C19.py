"""C19 - bit-level primitives agree with two's complement and IEEE-754 (DESIGN 4/C19)."""
import os
from vklib import Builder

QUICK_EXP = [-3, -1, 0, 1, 5, 15, 16, 20, 31, 32, 33, 52, 53, 62]
FRAC_QUICK = [52, 50, 48]        # 0, 2, 4 fractional mantissa bits: CBMC time grows ~2.3x per 4 fractional bits (e=40: 207 s, e=32: 908 s)
FRAC_THOROUGH = [46, 44, 40] + ([int(x) for x in os.environ["VK_FRAC"].split(",")] if os.environ.get("VK_FRAC") else [])
KNOWN_BAD_EXP = []                # (C19-F1 was repaired: |x| >= 2^63 is scaled into the i64 range before f64_int_bits, see vk_c19_mkd_scale_*)


def spec(tier, seed):
    b = Builder("C19")

    # ------------------------------------------------------------------ rusty_bit_vec
    bv = b.file("rusty_bit_vec/src/lib.rs", "rusty_bit_vec", "")
    b.add(bv, "vk_c19_bitvec_from_into", """
        let a: i16 = kani::any();
        let bits = BitVec::from(a as i32);
        assert!(bits.len() == INT_BITS);
        let w = a as u16;
        let mut k = 0;
        while k < 16 {
            // msb first: entry k is bit 15-k of the two's complement word
            assert!(bits[k] == ((w >> (15 - k)) & 1 == 1));
            k += 1;
        }
        let back: i32 = bits.into();
        assert!(back == a as i32);
        """, unwind=18, exhaustive=True, cost=8,
          bounds="all 65536 INTEGER values; loops unwound 18 (checked)",
          functions=["rusty_bit_vec::From<i32> for BitVec", "rusty_bit_vec::From<BitVec> for i32", "rusty_bit_vec::bits_to_i32",
                     "rusty_bit_vec::BitVec::index"])
    b.add(bv, "vk_c19_bitvec_and_or", """
        let a: i16 = kani::any();
        let c: i16 = kani::any();
        let and: i32 = (BitVec::from(a as i32) & BitVec::from(c as i32)).into();
        let or: i32 = (BitVec::from(a as i32) | BitVec::from(c as i32)).into();
        assert!(and == (a & c) as i32);
        assert!(or == (a | c) as i32);
        """, unwind=18, exhaustive=True, cost=12,
          bounds="all 2^32 pairs of INTEGER values; unwind 18 (checked)",
          functions=["rusty_bit_vec::BitAnd for BitVec", "rusty_bit_vec::BitOr for BitVec"])

    # ------------------------------------------------------------------ rusty_variant::bits
    bits = b.file("rusty_variant/src/bits.rs", "rusty_variant", "bits")
    b.helper(bits, """
    /// exact 2^k for -1074 <= k <= 1023, built from the bit pattern (stub for f64::powi with base 2.0)
    pub fn vk_powi(base: f64, k: i32) -> f64 {
        assert!(base == 2.0);
        if k >= -1022 {
            assert!(k <= 1023);
            f64::from_bits(((k + 1023) as u64) << 52)
        } else {
            assert!(k >= -1074);
            f64::from_bits(1u64 << (k + 1074))
        }
    }
    """)
    b.add(bits, "vk_c19_qb_and", """
        let a: i16 = kani::any();
        let c: i16 = kani::any();
        assert!(qb_and(a as i32, c as i32) == (a & c) as i32);
        """, unwind=18, exhaustive=True, cost=8, bounds="all 2^32 INTEGER pairs; unwind 18 (checked)",
          functions=["rusty_variant::qb_and"])
    b.add(bits, "vk_c19_qb_or", """
        let a: i16 = kani::any();
        let c: i16 = kani::any();
        assert!(qb_or(a as i32, c as i32) == (a | c) as i32);
        """, unwind=18, exhaustive=True, cost=8, bounds="all 2^32 INTEGER pairs; unwind 18 (checked)",
          functions=["rusty_variant::qb_or"])
    b.add(bits, "vk_c19_int_bytes", """
        let a: i16 = kani::any();
        let by = i32_to_bytes(a as i32);
        let le = a.to_le_bytes();
        assert!(by[0] == le[0] && by[1] == le[1]);
        assert!(bytes_to_i32(by) == a as i32);
        """, unwind=18, exhaustive=True, cost=8, bounds="all 65536 INTEGER values; unwind 18 (checked)",
          functions=["rusty_variant::i32_to_bytes", "rusty_variant::bytes_to_i32", "rusty_variant::bits::msb_bits_to_byte",
                     "rusty_variant::bits::lsb_bytes_to_msb_bits"])
    b.add(bits, "vk_c19_bytes_int", """
        let by: [u8; 2] = kani::any();
        let v = bytes_to_i32(by);
        assert!(v == i16::from_le_bytes(by) as i32);
        let back = i32_to_bytes(v);
        assert!(back[0] == by[0] && back[1] == by[1]);
        """, unwind=18, exhaustive=True, cost=8, bounds="all 65536 byte pairs; unwind 18 (checked)",
          functions=["rusty_variant::bytes_to_i32", "rusty_variant::i32_to_bytes"])

    # decoder: all normal doubles and +-0
    b.add(bits, "vk_c19_cvd_normal", """
        let by: [u8; 8] = kani::any();
        let u = u64::from_le_bytes(by);
        let e = (u >> 52) & 0x7ff;
        kani::assume(e != 0x7ff);
        kani::assume(e != 0 || (u << 12) == 0);       // normal numbers and the two zeros
        let got = bytes_to_f64(&by);
        let want = f64::from_le_bytes(by);
        assert!(got == want);
        // the sign of a non-zero value is kept as well (0.0 == -0.0 compares equal)
        assert!(e == 0 || got.is_sign_negative() == want.is_sign_negative());
        """, unwind=66, cost=40, stubs=[("f64::powi", "vk_powi")],
          bounds="every bit pattern of a normal double (exponent field 1..2046, all 2^52 mantissas, both signs) and +-0; "
                 "unwind 66 (checked); subnormals, inf, NaN outside",
          functions=["rusty_variant::bytes_to_f64", "rusty_variant::bits::lsb_bytes_to_msb_bits"])

    # |x| >= 2^63: f64_scale_to_i64_range halves the value exactly until it is below 2^63 (then f64_int_bits applies, e <= 62) and
    # reports how many zero bits were dropped; |x| < 2^63 is left alone
    def scale_instance(e, t, core=True):
        b.add(bits, "vk_c19_mkd_scale_e%d" % e, """
        let m: u64 = kani::any();
        kani::assume(m < (1u64 << 52));
        let x = f64::from_bits(((%(e)d + 1023) as u64) << 52 | m);     // 1.m * 2^e
        let (y, k) = f64_scale_to_i64_range(x);
        let want_k: usize = if %(e)d >= 63 { %(e)d - 62 } else { 0 };
        assert!(k == want_k);
        // the same mantissa, exponent 62 (or untouched): nothing is lost, the integer part now fits in an i64
        let want_y = if %(e)d >= 63 { f64::from_bits(((62 + 1023) as u64) << 52 | m) } else { x };
        assert!(y == want_y);
        assert!(y < 9223372036854775808.0);
        """ % {"e": e}, unwind=max(e - 62, 0) + 3, tier=t, core=core, cost=20 + max(e - 62, 0) * 5,
              bounds="x = 1.m * 2^%d, all 2^52 mantissas; unwind %d (checked)" % (e, max(e - 62, 0) + 3),
              functions=["rusty_variant::bits::f64_scale_to_i64_range"], basic="PRINT CVD(MKD$(1.6D+23))   ' via X# = 1600000.5: X# = X# * X# * X# * 40000")
    for e in (5, 62, 63, 64, 70, 100):
        scale_instance(e, "quick")
    for e in list(range(65, 129, 7)) + [200, 512, 1023]:
        if e not in (70, 100):
            scale_instance(e, "thorough", core=e <= 128)

    # twin of the open finding C19-F2: subnormal bit patterns (exponent field 0, mantissa != 0)
    b.add(bits, "vk_c19_cvd_subnormal", """
        let m: u64 = kani::any();
        kani::assume(m != 0 && m < (1u64 << 52));
        let neg: bool = kani::any();
        let by = (((neg as u64) << 63) | m).to_le_bytes();
        let got = bytes_to_f64(&by);
        let want = f64::from_le_bytes(by);
        assert!(got == want);
        """, unwind=66, cost=40, stubs=[("f64::powi", "vk_powi")], finding="C19-F2",
          bounds="every subnormal bit pattern (exponent field 0, any non-zero mantissa, both signs)",
          functions=["rusty_variant::bytes_to_f64"],
          basic='X# = 1: H# = .5: FOR I% = 1 TO 1030: X# = X# * H#: NEXT   \' X# = 2^-1030, a subnormal\nY# = CVD(MKD$(X#))   \' 0 instead of X# (MKD$ encodes every subnormal as zero; CVD decodes a subnormal pattern as 1.m * 2^-1023)')

    # encoder parts, one instance per binary exponent, sign and 52 mantissa bits symbolic
    def enc_instances(e, t, finding=None):
        tag = ("m%d" % -e) if e < 0 else str(e)
        common = """
        let m: u64 = kani::any();
        kani::assume(m < (1u64 << 52));
        let x = f64::from_bits(((%d + 1023) as u64) << 52 | m);     // 1.m * 2^e, e = %d
        """ % (e, e)
        if e >= 0:
            b.add(bits, "vk_c19_mkd_int_bits_e%s" % tag, common + """
        let got = f64_int_bits(x);
        assert!(got.len() == %d);
        let mut k = 0usize;
        while k < %d {
            let want = if k < 52 { (m >> (51 - k)) & 1 == 1 } else { false };
            assert!(got[k] == want);
            k += 1;
        }
        std::mem::forget(got);
        """ % (e, e), unwind=max(e, 1) + 4, tier=t, cost=30, finding=finding,
                  bounds="x = 1.m * 2^%d, all 2^52 mantissas; unwind %d (checked)" % (e, max(e, 1) + 4),
                  functions=["rusty_variant::bits::f64_int_bits"],
                  basic='PRINT CVD(MKD$(1.6D+20))' if finding else None)
        if e <= 52:
            # fractional bits: mantissa bits after the first max(e,0) ones; for e < 0 the encoder normalises first
            shift = max(e, 0)
            if e >= 0 and e in FRAC_QUICK + FRAC_THOROUGH:
                b.add(bits, "vk_c19_mkd_frac_bits_e%s" % tag, common + """
        let got = f64_fractional_bits(x);
        assert!(got.len() == 53);
        let mut k = 0usize;
        while k < 53 {
            let idx = k + %d;                         // position in the 52-bit mantissa
            let want = if idx < 52 { (m >> (51 - idx)) & 1 == 1 } else { false };
            assert!(got[k] == want);
            k += 1;
        }
        std::mem::forget(got);
        """ % shift, unwind=56, tier="quick" if e in FRAC_QUICK else "thorough", core=e in FRAC_QUICK, cost=20 + (52 - e) * 20,
                      solver=os.environ.get("VK_SOLVER"),
                      bounds="x = 1.m * 2^%d, all 2^52 mantissas; unwind 56 (checked)" % e,
                      functions=["rusty_variant::bits::f64_fractional_bits"])
            elif e < 0:
                b.add(bits, "vk_c19_mkd_normalize_e%s" % tag, common + """
        let s: bool = kani::any();
        let x = if s { -x } else { x };
        match f64_abs_normalize_value(x) {
            Some((a, k)) => {
                assert!(k == %d);
                assert!(a == f64::from_bits((1023u64 << 52) | m));   // |x| * 2^k = 1.m, in [1, 2)
            }
            None => assert!(false),
        }
        """ % (-e), unwind=(-e) + 3, tier=t, cost=10,
                      bounds="x = +-1.m * 2^%d, all 2^52 mantissas and both signs; unwind %d (checked)" % (e, -e + 3),
                      functions=["rusty_variant::bits::f64_abs_normalize_value"])

    thorough_exp = list(range(-16, 63))
    extra = [(-40 - (seed * 7) % 200), -(300 + (seed * 13) % 700), -1022]
    for e in sorted(set(thorough_exp + extra)):
        enc_instances(e, "quick" if e in QUICK_EXP else "thorough")
    for e in KNOWN_BAD_EXP:
        enc_instances(e, "quick", finding="C19-F1")

    # (probed again during the build: f64_to_bytes(x) == x.to_le_bytes() and bytes_to_f64 of it == x, per exponent e in
    # {46, 48, 50, 52, 53, 60, 62} with all mantissa bits symbolic: no verdict in 1200 s at any of them - the assembly of the parts
    # through Vec<bool>::insert stays outside the claim.)

    # ------------------------------------------------------------------ Variant and/or/not
    var = b.file("rusty_variant/src/variant.rs", "rusty_variant", "variant")
    b.add(var, "vk_c19_variant_and_or", """
        let a: i16 = kani::any();
        let c: i16 = kani::any();
        match Variant::VInteger(a as i32).and(Variant::VInteger(c as i32)) {
            Ok(Variant::VInteger(r)) => assert!(r == (a & c) as i32),
            other => { std::mem::forget(other); assert!(false); }
        }
        match Variant::VInteger(a as i32).or(Variant::VInteger(c as i32)) {
            Ok(Variant::VInteger(r)) => assert!(r == (a | c) as i32),
            other => { std::mem::forget(other); assert!(false); }
        }
        """, unwind=18, exhaustive=True, cost=15, bounds="all 2^32 INTEGER pairs; unwind 18 (checked)",
          functions=["rusty_variant::Variant::and", "rusty_variant::Variant::or"])
    b.add(var, "vk_c19_variant_not", """
        let a: i16 = kani::any();
        match Variant::VInteger(a as i32).unary_not() {
            Ok(Variant::VInteger(r)) => assert!(r == (!a) as i32),
            other => { std::mem::forget(other); assert!(false); }
        }
        """, unwind=2, exhaustive=True, cost=3, bounds="all 65536 INTEGER values",
          functions=["rusty_variant::Variant::unary_not"])

    # ------------------------------------------------------------------ PEEK / POKE byte view
    ctx = b.file("rusty_basic/src/interpreter/context.rs", "rusty_basic", "interpreter::context")
    b.add(ctx, "vk_c19_peek_poke", """
        let a: i16 = kani::any();
        let addr: usize = kani::any();
        kani::assume(addr < 2);
        let val: u8 = kani::any();
        let mut v = Variant::VInteger(a as i32);
        let le = a.to_le_bytes();
        match v.peek_byte(addr) {
            Ok(got) => assert!(got == le[addr]),
            Err(e) => { std::mem::forget(e); assert!(false); }
        }
        match v.poke_byte(addr, val) {
            Ok(()) => {}
            Err(e) => { std::mem::forget(e); assert!(false); }
        }
        let mut want = le;
        want[addr] = val;
        match &v {
            Variant::VInteger(r) => assert!(*r == i16::from_le_bytes(want) as i32),
            _ => assert!(false),
        }
        std::mem::forget(v);
        """, unwind=18, exhaustive=True, cost=15,
          bounds="all 65536 INTEGER values x address 0/1 x all 256 byte values; unwind 18 (checked)",
          functions=["rusty_basic::interpreter::context::PeekByte for Variant", "rusty_basic::interpreter::context::PokeByte for Variant"])

    # (probed: PEEK / POKE on an INTEGER VArray of three elements with symbolic contents: no verdict in 600 s.)

    return b.build(
        tier,
        bounds="integers: none (all 2^16 values / 2^32 pairs, unwind 18 checked). decoder: all normal doubles and +-0. "
               "encoder parts: one instance per binary exponent e with sign and all 52 mantissa bits symbolic; quick e in %s, "
               "thorough every e in -16..62 plus seed-rotated negative exponents and -1022; the scaling of |x| >= 2^63 into the i64 range for e = 63, 64, 70, 100 (quick) / 63..128, 200, 512, 1023 (thorough)" % QUICK_EXP,
        outside="assembly of the encoder parts in f64_to_bits_for_normalized_value and hence CVD(MKD$(x)) = x end to end; "
                "subnormals, inf, NaN in the decoder; MKD$/CVD string packing (string_utils)",
        stubs=["f64::powi(2.0, k) -> exact power of two built from the bit pattern (Kani over-approximates powi); used only by vk_c19_cvd_normal"],
        assumptions=["compiler-rt's __powidf2(2.0, k) is exact for -1074 <= k <= 1023"],
    )
