"""String built-ins whose bodies are inline in `run<S: InterpreterTrait>`: LEFT$, RIGHT$, LTRIM$, RTRIM$, UCASE$, LCASE$,
SPACE$, STRING$, LEN, CHR$.  The body of `run` is cut out of /repo's current source (harness/slicer.py) and compiled,
unchanged, against `VkInterp`: an argument array in place of the VM `Context` (reads `interpreter.context()[k]`,
`interpreter.context().variables().get(k)`; write `interpreter.context_mut().set_built_in_function_result(F, v)`).
Shared by C17 (defining equations) and C08 (no internal failure on any admissible argument)."""
import slicer

BI = "rusty_basic/src/interpreter/built_ins/%s.rs"

ENV = """
    /// One positional argument of a built-in call.  A string argument is kept *outside* `Variant`: Kani 0.68 loses the
    /// contents of a `String` that is stored in an enum with floating-point variants (probe: `E::S(String::from("a"))`
    /// with `enum E { B(f64), S(String), I(i32) }` reads back an arbitrary byte), so `Variant::VString` cannot carry
    /// symbolic text.  Numeric arguments are real `Variant`s and every conversion on them is the repository's code
    /// (reached through Deref).
    pub struct VkArg { pub text: String, pub is_text: bool, pub v: Variant }
    impl VkArg {
        pub fn text(s: String) -> Self { VkArg { text: s, is_text: true, v: Variant::VInteger(0) } }
        pub fn num(v: Variant) -> Self { VkArg { text: String::new(), is_text: false, v } }
        /// what `VariantCasts::to_str_unchecked` does for a `Variant::VString`
        pub fn to_str_unchecked(&self) -> &str { assert!(self.is_text); self.text.as_str() }
    }
    impl std::ops::Deref for VkArg { type Target = Variant; fn deref(&self) -> &Variant { assert!(!self.is_text); &self.v } }
    /// the result slot: a string result is kept outside `Variant` for the same reason
    pub struct VkOut { pub text: Option<String>, pub num: Option<Variant>, pub calls: usize }
    pub trait VkResult { fn store(self, out: &mut VkOut); }
    impl VkResult for String { fn store(self, out: &mut VkOut) { let old = out.text.replace(self); std::mem::forget(old); } }
    impl VkResult for i32 { fn store(self, out: &mut VkOut) { let old = out.num.replace(Variant::from(self)); std::mem::forget(old); } }
    impl VkResult for f64 { fn store(self, out: &mut VkOut) { let old = out.num.replace(Variant::from(self)); std::mem::forget(old); } }
    impl VkResult for Variant { fn store(self, out: &mut VkOut) { let old = out.num.replace(self); std::mem::forget(old); } }
    /// stands for the VM `Context` of a built-in call: the positional arguments and the slot of the result
    pub struct VkArgs { pub args: Vec<VkArg>, pub out: VkOut }
    impl std::ops::Index<usize> for VkArgs {
        type Output = VkArg;
        fn index(&self, index: usize) -> &VkArg { self.args.get(index).expect("Variable not found at requested index") }
    }
    impl VkArgs {
        pub fn variables(&self) -> &VkArgs { self }
        pub fn get(&self, index: usize) -> Option<&VkArg> { self.args.get(index) }
        pub fn set_built_in_function_result<V: VkResult>(&mut self, _f: rusty_parser::BuiltInFunction, value: V) {
            value.store(&mut self.out);
            self.out.calls += 1;
        }
    }
    pub struct VkInterp { pub ctx: VkArgs }
    impl VkInterp {
        pub fn new(args: Vec<VkArg>) -> Self { VkInterp { ctx: VkArgs { args, out: VkOut { text: None, num: None, calls: 0 } } } }
        pub fn context(&self) -> &VkArgs { &self.ctx }
        pub fn context_mut(&mut self) -> &mut VkArgs { &mut self.ctx }
    }
    /// `n` symbolic bytes, each one of the constants of `alphabet` chosen by a symbolic selector (a byte constrained only
    /// by an assumption makes CBMC walk the multi-byte branches of the UTF-8 decoder)
    macro_rules! vk_choice_text {
        ($bytes:ident, $n:expr, [$($k:literal => $c:literal),* ; $last:literal]) => {
            let mut $bytes: [u8; $n] = [$last; $n];
            let mut vk_k = 0usize;
            while vk_k < $n {
                let vk_sel: u8 = kani::any();
                $bytes[vk_k] = match vk_sel { $($k => $c,)* _ => $last };
                vk_k += 1;
            }
        };
    }
    /// stub for `String::push` where the text is ASCII: appends one byte.  (std's push reserves `ch.len_utf8()` bytes; with a symbolic
    /// character that is a reallocation of symbolic size per pushed character, on which CBMC runs out of memory.)
    pub fn vk_push_ascii(s: &mut String, ch: char) { assert!((ch as u32) < 128); unsafe { s.as_mut_vec().push(ch as u8); } }
    /// the same for characters below U+0800: one byte, or the two bytes of the UTF-8 encoding
    pub fn vk_push_small(s: &mut String, ch: char) {
        let c = ch as u32;
        assert!(c < 0x800);
        unsafe {
            let v = s.as_mut_vec();
            if c < 128 { v.push(c as u8); } else { v.push(0xC0 | (c >> 6) as u8); v.push(0x80 | (c & 0x3F) as u8); }
        }
    }
    pub fn vk_string(bytes: &[u8]) -> VkArg { VkArg::text(unsafe { String::from_utf8_unchecked(bytes.to_vec()) }) }
    /// any INTEGER argument
    pub fn vk_any_integer() -> (i32, VkArg) { let a: i16 = kani::any(); (a as i32, VkArg::num(Variant::VInteger(a as i32))) }
    /// `n` symbolic letters over {a, b, e-acute}: byte length n..2n, includes non-ASCII text
    pub fn vk_utext(n: usize) -> String {
        let mut s = String::with_capacity(2 * n + 1);
        let mut k = 0usize;
        while k < n {
            let c: u8 = kani::any();
            s.push(match c { 0 => 'a', 1 => 'b', _ => '\\u{e9}' });
            k += 1;
        }
        s
    }
"""


def sliced_run(name):
    """Text of `fn vk_run(interpreter: &mut VkInterp) -> Result<(), RuntimeError> { <body of run, verbatim> }`."""
    src = slicer.read(BI % name)
    sig, body = slicer.function(src, "run")
    if not re_sig_ok(sig):
        raise slicer.SliceError("unexpected signature of %s::run: %s" % (name, " ".join(sig.split())))
    return "    pub fn vk_run(interpreter: &mut VkInterp) -> Result<(), RuntimeError> {%s}\n" % body


def re_sig_ok(sig):
    s = " ".join(sig.split())
    return "interpreter: &mut S" in s and "Result<(), RuntimeError>" in s or "interpreter: &mut S" in s


def open_file(b, name):
    rel = b.file(BI % name, "rusty_basic", "interpreter::built_ins::%s" % name,
                 uses="    use rusty_variant::Variant;\n    use crate::interpreter::variant_casts::VariantCasts;\n    use rusty_linter::core::QBNumberCast;\n")
    done = b.__dict__.setdefault("_bifn_files", set())
    if rel not in done:
        done.add(rel)
        b.helper(rel, ENV)
        b.helper(rel, sliced_run(name))
    return rel


ALPHA3 = "[0 => b'a', 1 => b'b' ; b'c']"          # three letters
FN = "rusty_basic::interpreter::built_ins::%s::run (body, sliced)"
STUB_NOTE = ("String::push -> a stub that appends the one or two UTF-8 bytes of a character below U+0800 (std's push reserves ch.len_utf8() bytes: a reallocation of symbolic size per character, on which CBMC runs out of memory); the VM Context of a built-in call is replaced by an argument array (VkInterp): interpreter.context()[k] reads argument k, "
             "set_built_in_function_result stores the result; the body of run() is the repository's text, unchanged")

RESULT_STR = """
        let r: &str = match &vm.ctx.out.text { Some(r) => r.as_str(), _ => { assert!(false); return; } };
        let rb = r.as_bytes();
"""


def left_right(b, prefix, n, counts, tier, core=True, only=("left", "right")):
    """LEFT$(s, c) / RIGHT$(s, c): one instance per text length n and count c (a symbolic count makes CBMC build the result
    string under a symbolic loop bound: out of memory at 8 GB for n >= 2); the text is symbolic."""
    for which in only:
        rel = open_file(b, which)
        for c in counts:
            want = min(c, n)
            want_at = "bytes[k]" if which == "left" else "bytes[%d + k]" % (n - want)
            b.add(rel, "%s_%s_len%d_count%d" % (prefix, which, n, c), """
        vk_choice_text!(bytes, %(n)d, %(alpha)s);
        let mut vm = VkInterp::new(vec![vk_string(&bytes), VkArg::num(Variant::VInteger(%(c)d))]);
        match vk_run(&mut vm) { Ok(()) => {}, Err(e) => { std::mem::forget(e); assert!(false); } }
        assert!(vm.ctx.out.calls == 1);
        %(result)s
        // exactly the %(what)s of min(count, len) characters
        assert!(rb.len() == %(want)d);
        let mut k = 0usize;
        while k < %(want)d { assert!(rb[k] == %(at)s); k += 1; }
        std::mem::forget(vm);
        """ % {"n": n, "c": c, "alpha": ALPHA3, "result": RESULT_STR, "at": want_at, "want": want,
               "what": "prefix" if which == "left" else "suffix"},
                  unwind=n + 3, tier=tier, core=core, cost=20 + 10 * n, stubs=[("std::string::String::push", "vk_push_ascii")],
                  bounds="every string of exactly %d letters over {a, b, c}; count %d" % (n, c),
                  functions=[FN % which, "rusty_basic::interpreter::variant_casts::VariantCasts::to_non_negative_int"])


def left_right_negative(b, prefix, tier):
    """a negative count raises Illegal function call (5), for every negative INTEGER (text of one letter)"""
    for which in ("left", "right"):
        rel = open_file(b, which)
        b.add(rel, "%s_%s_negative_count" % (prefix, which), """
        vk_choice_text!(bytes, 1, %(alpha)s);
        let (count, cv) = vk_any_integer();
        kani::assume(count < 0);
        let mut vm = VkInterp::new(vec![vk_string(&bytes), cv]);
        match vk_run(&mut vm) { Err(RuntimeError::IllegalFunctionCall) => {}, Err(e) => { std::mem::forget(e); assert!(false); }, Ok(()) => assert!(false) }
        assert!(vm.ctx.out.calls == 0);
        std::mem::forget(vm);
        """ % {"alpha": ALPHA3}, unwind=4, tier=tier, cost=30,
              bounds="every negative INTEGER count; every one-letter string over {a, b, c}",
              functions=[FN % which, "rusty_basic::interpreter::variant_casts::VariantCasts::to_non_negative_int"])


def case_fns(b, prefix, n, tier):
    for which, frm, to in (("ucase", "b'a'..=b'z'", "c - 32"), ("lcase", "b'A'..=b'Z'", "c + 32")):
        rel = open_file(b, which)
        b.add(rel, "%s_%s_len%d" % (prefix, which, n), """
        // letters of both cases, a digit, a blank, the characters next to the letter ranges
        vk_choice_text!(bytes, %(n)d, [0 => b'a', 1 => b'z', 2 => b'A', 3 => b'Z', 4 => b'm', 5 => b'Q', 6 => b'5', 7 => b' ', 8 => b'@', 9 => b'[', 10 => b'`', 11 => b'{' ; b'~']);
        let mut vm = VkInterp::new(vec![vk_string(&bytes)]);
        match vk_run(&mut vm) { Ok(()) => {}, Err(e) => { std::mem::forget(e); assert!(false); } }
        %(result)s
        // same length; letters of the other case are converted, everything else is unchanged
        assert!(rb.len() == %(n)d);
        let mut k = 0usize;
        while k < %(n)d {
            let c = bytes[k];
            let want = match c { %(frm)s => %(to)s, _ => c };
            assert!(rb[k] == want);
            k += 1;
        }
        std::mem::forget(vm);
        """ % {"n": n, "result": RESULT_STR, "frm": frm, "to": to}, unwind=n + 3, tier=tier, cost=20 + 10 * n,
              bounds="every string of exactly %d characters over {a, z, A, Z, m, Q, 5, blank, @, [, `, {, ~}" % n,
              functions=[FN % which])


def trim_fns(b, prefix, n, tier, finding=None, blanks_only=True):
    """LTRIM$/RTRIM$ remove exactly the leading/trailing blanks.  Alphabet: blank, x and - unless blanks_only - TAB and LF,
    which are not blanks (QBasic's LTRIM$/RTRIM$ strip spaces, CHR$(32), only)."""
    alpha = "[0 => b' ' ; b'x']" if blanks_only else "[0 => b' ', 1 => b'\\t', 2 => b'\\n' ; b'x']"
    tag = "" if blanks_only else "_ctl"
    for which in ("ltrim", "rtrim"):
        rel = open_file(b, which)
        if which == "ltrim":
            ref = """
            let mut lo = 0usize;
            while lo < %(n)d && bytes[lo] == b' ' { lo += 1; }
            let hi = %(n)d;""" % {"n": n}
        else:
            ref = """
            let lo = 0usize;
            let mut hi = %(n)d;
            while hi > 0 && bytes[hi - 1] == b' ' { hi -= 1; }""" % {"n": n}
        b.add(rel, "%s_%s%s_len%d" % (prefix, which, tag, n), """
        vk_choice_text!(bytes, %(n)d, %(alpha)s);
        let mut vm = VkInterp::new(vec![vk_string(&bytes)]);
        match vk_run(&mut vm) { Ok(()) => {}, Err(e) => { std::mem::forget(e); assert!(false); } }
        %(result)s
        %(ref)s
        assert!(rb.len() == hi - lo);
        let mut k = 0usize;
        while k < hi - lo { assert!(rb[k] == bytes[lo + k]); k += 1; }
        std::mem::forget(vm);
        """ % {"n": n, "alpha": alpha, "result": RESULT_STR, "ref": ref}, unwind=n + 3, tier=tier, cost=20 + 10 * n, finding=finding,
              bounds="every string of exactly %d characters over {blank, x%s}" % (n, "" if blanks_only else ", TAB, LF"),
              functions=[FN % which],
              basic='PRINT "[" + %s$(CHR$(9) + "x" + CHR$(9)) + "]"' % which.upper())


def space_string(b, prefix, tier):
    rel = open_file(b, "space")
    b.add(rel, prefix + "_space", """
        let (count, cv) = vk_any_integer();
        kani::assume(count <= 6);            // the result is built one character at a time
        let mut vm = VkInterp::new(vec![cv]);
        let res = vk_run(&mut vm);
        if count < 0 {
            // SPACE$(n) = STRING$(n, 32): a negative count raises Illegal function call (5)
            match res { Err(RuntimeError::IllegalFunctionCall) => {}, Err(e) => { std::mem::forget(e); assert!(false); }, Ok(()) => assert!(false) }
        } else {
            match res { Ok(()) => {}, Err(e) => { std::mem::forget(e); assert!(false); } }
            %(result)s
            assert!(rb.len() == count as usize);
            let mut k = 0usize;
            while k < 6 { if k < rb.len() { assert!(rb[k] == b' '); } k += 1; }
        }
        std::mem::forget(vm);
        """ % {"result": RESULT_STR}, unwind=9, tier=tier, cost=40,
          bounds="every INTEGER count -32768..6", functions=[FN % "space"], basic="PRINT \"[\" + SPACE$(-1) + \"]\"")
    rel = open_file(b, "string_fn")
    # the character code is one of a few constants per instance (a symbolic code makes the pushed character's UTF-8 length, and with it
    # the size of the result's allocation, symbolic: out of memory)
    for tag, codes, c in (("ascii", (0, 32, 65, 127), 3), ("ascii", (33, 126), 1), ("high", (128, 233, 255), 2)):
        arms = ", ".join("%d => %d" % (k, v) for k, v in enumerate(codes[:-1]))
        b.add(rel, prefix + "_string_code_%s_count%d" % (tag, c), """
        let sel: u8 = kani::any();
        let code: i32 = match sel { %(arms)s, _ => %(last)d };
        let mut vm = VkInterp::new(vec![VkArg::num(Variant::VInteger(%(c)d)), VkArg::num(Variant::VInteger(code))]);
        match vk_run(&mut vm) { Ok(()) => {}, Err(e) => { std::mem::forget(e); assert!(false); } }
        let r: &str = match &vm.ctx.out.text { Some(r) => r.as_str(), _ => { assert!(false); return; } };
        // n characters, each the one with that code
        let mut n = 0usize;
        for ch in r.chars() { assert!(ch as u32 == code as u32); n += 1; }
        assert!(n == %(c)d);
        std::mem::forget(vm);
        """ % {"c": c, "arms": arms, "last": codes[-1]}, unwind=c + 4, tier="thorough", core=False, cost=60, stubs=[("std::string::String::push", "vk_push_small")],   # out of memory at 8 GB even with the push stub (RepeatN)
              bounds="count %d; character codes %s" % (c, ", ".join(map(str, codes))), functions=[FN % "string_fn",
              "rusty_basic::interpreter::built_ins::string_fn::run_with_variant", "rusty_basic::interpreter::built_ins::string_fn::run_with_ascii_code_argument"])
    b.add(rel, prefix + "_string_code_invalid", """
        let (code, kv) = vk_any_integer();
        kani::assume(code < 0 || code > 255);
        let mut vm = VkInterp::new(vec![VkArg::num(Variant::VInteger(0)), kv]);
        match vk_run(&mut vm) { Err(RuntimeError::IllegalFunctionCall) => {}, Err(e) => { std::mem::forget(e); assert!(false); }, Ok(()) => assert!(false) }
        std::mem::forget(vm);
        """, unwind=4, tier=tier, cost=40, bounds="count 0; every INTEGER character code outside 0..255",
          functions=[FN % "string_fn", "rusty_basic::interpreter::built_ins::string_fn::run_with_ascii_code_argument"])
    b.add(rel, prefix + "_string_negative_count", """
        let (count, cv) = vk_any_integer();
        kani::assume(count < 0);
        let mut vm = VkInterp::new(vec![cv, VkArg::num(Variant::VInteger(32))]);
        match vk_run(&mut vm) { Err(RuntimeError::IllegalFunctionCall) => {}, Err(e) => { std::mem::forget(e); assert!(false); }, Ok(()) => assert!(false) }
        std::mem::forget(vm);
        """, unwind=4, tier=tier, cost=40, bounds="every negative INTEGER count; character code 32",
          functions=[FN % "string_fn"])


def total_on_unicode(b, prefix, n, tier):
    """C08: no internal failure for any text (multi-byte characters included) and the counts around its length."""
    for which in ("left", "right"):
        rel = open_file(b, which)
        for c in range(0, 2 * n + 2):
            b.add(rel, "%s_%s_total_len%d_count%d" % (prefix, which, n, c), """
        let s = vk_utext(%(n)d);
        let blen = s.len();
        let cv = VkArg::num(Variant::VInteger(%(c)d));
        let mut vm = VkInterp::new(vec![VkArg::text(s), cv]);
        match vk_run(&mut vm) {
            Ok(()) => match &vm.ctx.out.text { Some(r) => assert!(r.len() <= blen), _ => assert!(false) },
            Err(e) => { let c = e.get_code(); assert!(c > 0); std::mem::forget(e); }
        }
        std::mem::forget(vm);
        """ % {"n": n, "c": c}, unwind=2 * n + 3, tier=tier, cost=30 + 20 * n,
                  bounds="every text of exactly %d letters over {a, b, U+00E9} (byte length %d..%d); count %d" % (n, n, 2 * n, c),
                  functions=[FN % which], basic='PRINT %s$("\u00e9\u00e9", 1)' % which.upper())
    for which in ("ltrim", "rtrim", "ucase", "lcase"):
        rel = open_file(b, which)
        b.add(rel, "%s_%s_total_len%d" % (prefix, which, n), """
        let s = vk_utext(%(n)d);
        let mut vm = VkInterp::new(vec![VkArg::text(s)]);
        match vk_run(&mut vm) {
            Ok(()) => assert!(vm.ctx.out.calls == 1),
            Err(e) => { let c = e.get_code(); assert!(c > 0); std::mem::forget(e); }
        }
        std::mem::forget(vm);
        """ % {"n": n}, unwind=2 * n + 3, tier=tier, cost=30 + 20 * n,
              bounds="every text of exactly %d letters over {a, b, U+00E9}" % n, functions=[FN % which])


# ---------------------------------------------------------------------------------------------------------------------
# lint rule vs run-time body: what the static checker lets through is what the run time can handle (C08, C12)

LINT = "rusty_linter/src/built_ins/%s.rs"
ARGV = "rusty_linter/src/built_ins/arg_validation.rs"

LINT_ENV = """
    // ---- text of rusty_linter's arg_validation.rs: the trait with its default methods, unchanged ----
    pub %(trait)s
    /// the static types of the arguments of a call: what the argument rules look at
    pub struct VkTypes { pub t: [TypeQualifier; 3], pub n: usize }
    impl VkTypes {
        pub fn len(&self) -> usize { self.n }
        pub fn is_empty(&self) -> bool { self.n == 0 }
        fn vk_req(&self, index: usize, q: TypeQualifier) -> Result<(), LintErrorPos> {
            assert!(index < self.n);                     // Expressions[index] panics out of range
            if self.t[index].can_cast_to(&q) { Ok(()) } else { Err(LintError::ArgumentTypeMismatch.at_pos(Position::new(1, 1))) }
        }
    }
    /// the primitive rules on the type of an argument (for `Expressions` they look at the expression's type; the real CanCastTo decides)
    impl ArgValidation for VkTypes {
        fn require_integer_argument(&self, index: usize) -> Result<(), LintErrorPos> { self.vk_req(index, TypeQualifier::PercentInteger) }
        fn require_long_argument(&self, index: usize) -> Result<(), LintErrorPos> { self.vk_req(index, TypeQualifier::AmpersandLong) }
        fn require_double_argument(&self, index: usize) -> Result<(), LintErrorPos> { self.vk_req(index, TypeQualifier::HashDouble) }
        fn require_numeric_argument(&self, index: usize) -> Result<(), LintErrorPos> {
            assert!(index < self.n);
            if self.t[index] != TypeQualifier::DollarString { Ok(()) } else { Err(LintError::ArgumentTypeMismatch.at_pos(Position::new(1, 1))) }
        }
        fn require_string_argument(&self, index: usize) -> Result<(), LintErrorPos> { self.vk_req(index, TypeQualifier::DollarString) }
        fn require_string_variable(&self, _index: usize) -> Result<(), LintErrorPos> { kani::assume(false); Ok(()) }
        fn require_string_ref(&self, _index: usize) -> Result<(), LintErrorPos> { kani::assume(false); Ok(()) }
        fn require_variable_of_built_in_type(&self, _index: usize) -> Result<(), LintErrorPos> { kani::assume(false); Ok(()) }
        fn require_variable(&self, _index: usize) -> Result<(), LintErrorPos> { kani::assume(false); Ok(()) }
        fn require_one_argument(&self, pos: Position) -> Result<(), LintErrorPos> {
            if self.len() != 1 { Err(LintError::ArgumentCountMismatch.at_pos(pos)) } else { Ok(()) }
        }
        fn require_zero_arguments(&self, pos: Position) -> Result<(), LintErrorPos> {
            if self.is_empty() { Ok(()) } else { Err(LintError::ArgumentCountMismatch.at_pos(pos)) }
        }
        fn expr_pos(&self, _index: usize) -> &ExpressionPos { panic!("not an expression list") }
    }
    // ---- text of rusty_linter's built_ins/%(name)s.rs lint(), unchanged, on the argument types ----
    pub fn vk_lint(args: &VkTypes, pos: Position) -> Result<(), LintErrorPos> {%(lint)s}
    pub fn vk_q(k: u8) -> TypeQualifier {
        match k { 0 => TypeQualifier::PercentInteger, 1 => TypeQualifier::AmpersandLong, 2 => TypeQualifier::BangSingle,
                  3 => TypeQualifier::HashDouble, _ => TypeQualifier::DollarString }
    }
    pub fn vk_arg_of(q: TypeQualifier) -> VkArg {
        match q {
            TypeQualifier::PercentInteger => VkArg::num(Variant::VInteger(1)),
            TypeQualifier::AmpersandLong => VkArg::num(Variant::VLong(1)),
            TypeQualifier::BangSingle => VkArg::num(Variant::VSingle(1.0)),
            TypeQualifier::HashDouble => VkArg::num(Variant::VDouble(1.0)),
            // the empty text: what matters is which accessor the body applies to which argument (a non-empty text merged with the numeric
            // case makes every string operation of the body run on a string of symbolic size: out of memory)
            _ => VkArg::text(String::new()),
        }
    }
"""

LINT_USES = ("    use rusty_linter::core::{CanCastTo, LintError, LintErrorPos};\n    use rusty_parser::{Expression, ExpressionPos, TypeQualifier};\n"
             "    use rusty_common::{AtPos, Position};\n")


def lint_vs_run(b, prefix, name, tier, core=True):
    """Every argument list (0..3 arguments, each of any of the five built-in types) that the sliced lint rule of the built-in accepts is one
    the sliced run-time body can work on: it reads a string only where it gets a string and a number only where it gets a number (the
    stand-in argument asserts its kind, like to_str_unchecked does), never reads past the arguments and never raises Type mismatch."""
    rel = open_file(b, name)
    b.file(rel, "rusty_basic", "interpreter::built_ins::%s" % name, uses=LINT_USES)
    src = slicer.read(LINT % name)
    sig, body = slicer.function(src, "lint")
    if "args: &Expressions" not in " ".join(sig.split()):
        raise slicer.SliceError("unexpected signature of the lint rule of %s: %s" % (name, " ".join(sig.split())))
    trait = slicer.item_text(slicer.read(ARGV), r"trait\s+ArgValidation\b")
    b.helper(rel, LINT_ENV % {"trait": trait, "name": name, "lint": body})
    b.add(rel, "%s_%s_lint_vs_run" % (prefix, name), """
        let n: usize = kani::any();
        kani::assume(n <= 3);
        let t = [vk_q(kani::any()), vk_q(kani::any()), vk_q(kani::any())];
        let types = VkTypes { t, n };
        match vk_lint(&types, Position::new(1, 1)) {
            Err(e) => { std::mem::forget(e); }                  // rejected by the checker: nothing to run
            Ok(()) => {
                let mut args: Vec<VkArg> = Vec::with_capacity(3);
                let mut k = 0usize;
                while k < 3 { if k < n { args.push(vk_arg_of(t[k])); } k += 1; }
                let mut vm = VkInterp::new(args);
                match vk_run(&mut vm) {
                    Ok(()) => assert!(vm.ctx.out.calls == 1),
                    Err(e) => { assert!(e != RuntimeError::TypeMismatch); let c = e.get_code(); assert!(c > 0); std::mem::forget(e); }
                }
                std::mem::forget(vm);
            }
        }
        """, unwind=6, tier=tier, core=core, cost=120, stubs=[("std::string::String::push", "vk_push_small")],
          bounds="every argument list of 0..3 arguments, each of any of the five built-in types (values: 1, the empty text)",
          functions=["rusty_linter::built_ins::%s::lint (body, sliced)" % name, "rusty_linter::built_ins::arg_validation::ArgValidation (trait text, sliced: default methods)",
                     "rusty_linter::core::CanCastTo for TypeQualifier", FN % name])
