"""C04 - arrays change only where they are written: the index kernel (DESIGN 4/C04)."""
from vklib import Builder

SHAPES_QUICK = [(4,), (4, 4), (2, 2, 2)]
SHAPES_THOROUGH = [(8,), (6, 4), (4, 3, 2), (3, 3, 3)]


def shape_harness(b, rel, ext, tier):
    d = len(ext)
    tag = "x".join(str(e) for e in ext)
    maxlen = 1
    for e in ext:
        maxlen *= e
    ext_assumes = "\n".join("kani::assume(ext[%d] >= 1 && ext[%d] <= %d);" % (k, k, e) for k, e in enumerate(ext))
    b.add(rel, "vk_c04_index_%dd_%s" % (d, tag), """
        let lb: [i8; %(d)d] = kani::any();                 // any lower bound, negative included
        let ext: [u8; %(d)d] = kani::any();
        %(ext_assumes)s
        let mut dims: Vec<(i32, i32)> = Vec::with_capacity(%(d)d);
        let mut want_len: usize = 1;
        let mut k = 0usize;
        while k < %(d)d {
            dims.push((lb[k] as i32, lb[k] as i32 + ext[k] as i32 - 1));
            want_len *= ext[k] as usize;
            k += 1;
        }
        let arr = VArray::new(dims, Variant::VInteger(0));
        assert!(arr.len() == want_len);
        // LBOUND / UBOUND report the declared bounds
        let mut k = 0usize;
        while k < %(d)d {
            match arr.get_dimension_bounds(k) {
                Some((l, u)) => assert!(*l == lb[k] as i32 && *u == lb[k] as i32 + ext[k] as i32 - 1),
                None => assert!(false),
            }
            k += 1;
        }
        assert!(arr.get_dimension_bounds(%(d)d).is_none());
        // two arbitrary index tuples (the generator casts every subscript to INTEGER)
        let i1: [i16; %(d)d] = kani::any();
        let i2: [i16; %(d)d] = kani::any();
        let mut in1 = true;
        let mut in2 = true;
        let mut same = true;
        let mut a1 = [0i32; %(d)d];
        let mut a2 = [0i32; %(d)d];
        let mut k = 0usize;
        while k < %(d)d {
            a1[k] = i1[k] as i32;
            a2[k] = i2[k] as i32;
            let (l, u) = (lb[k] as i32, lb[k] as i32 + ext[k] as i32 - 1);
            if a1[k] < l || a1[k] > u { in1 = false; }
            if a2[k] < l || a2[k] > u { in2 = false; }
            if a1[k] != a2[k] { same = false; }
            k += 1;
        }
        let p1 = arr.abs_index(&a1);
        let p2 = arr.abs_index(&a2);
        // out of range exactly when some index lies outside its declared bounds
        assert!(p1.is_ok() == in1);
        assert!(p2.is_ok() == in2);
        assert!(arr.get_element(&a1).is_ok() == in1);
        if let (Ok(q1), Ok(q2)) = (&p1, &p2) {
            assert!(*q1 < want_len && *q2 < want_len);
            // distinct index tuples denote distinct elements
            assert!((*q1 == *q2) == same);
        }
        std::mem::forget(arr);
        """ % {"d": d, "ext_assumes": ext_assumes}, unwind=max(maxlen, d) + 3, tier=tier, cost=10 + maxlen * 3,
          bounds="%d-dimensional shapes with extents <= %s, lower bounds any i8, both index tuples any i16; unwind %d (checked)"
                 % (d, " x ".join(str(e) for e in ext), max(maxlen, d) + 3),
          functions=["rusty_variant::VArray::new", "rusty_variant::VArray::abs_index", "rusty_variant::VArray::get_element",
                     "rusty_variant::VArray::get_dimension_bounds", "rusty_variant::VArray::len",
                     "rusty_variant::array_value::dimensions_to_array_length"])


def store_harness(b, rel, ext, tier):
    d = len(ext)
    tag = "x".join(str(e) for e in ext)
    maxlen = 1
    for e in ext:
        maxlen *= e
    b.add(rel, "vk_c04_store_%dd_%s" % (d, tag), """
        // fixed shape, symbolic lower bounds, symbolic INTEGER contents
        let lb: [i8; %(d)d] = kani::any();
        let ext: [i32; %(d)d] = [%(exts)s];
        let mut dims: Vec<(i32, i32)> = Vec::with_capacity(%(d)d);
        let mut k = 0usize;
        while k < %(d)d { dims.push((lb[k] as i32, lb[k] as i32 + ext[k] - 1)); k += 1; }
        let old: [i16; %(n)d] = kani::any();
        let mut elements: Vec<Variant> = Vec::with_capacity(%(n)d);
        let mut k = 0usize;
        while k < %(n)d { elements.push(Variant::VInteger(old[k] as i32)); k += 1; }
        let mut arr = VArray { dimensions: dims, elements };
        let w: [i16; %(d)d] = kani::any();
        let r: [i16; %(d)d] = kani::any();
        let mut wi = [0i32; %(d)d];
        let mut ri = [0i32; %(d)d];
        let mut same = true;
        let mut k = 0usize;
        while k < %(d)d { wi[k] = w[k] as i32; ri[k] = r[k] as i32; if wi[k] != ri[k] { same = false; } k += 1; }
        let before = match arr.get_element(&ri) { Ok(Variant::VInteger(x)) => Some(*x), _ => None };
        let v: i16 = kani::any();
        let stored = match arr.get_element_mut(&wi) {
            Ok(slot) => { std::mem::forget(std::mem::replace(slot, Variant::VInteger(v as i32))); true }
            Err(_) => false,
        };
        let after = match arr.get_element(&ri) { Ok(Variant::VInteger(x)) => Some(*x), _ => None };
        // reading back yields the stored value; every other element is unchanged
        if stored && same { assert!(after == Some(v as i32)); } else { assert!(after == before); }
        assert!(arr.len() == %(n)d);
        std::mem::forget(arr);
        """ % {"d": d, "n": maxlen, "exts": ", ".join(str(e) for e in ext)}, unwind=maxlen + 3, tier=tier, core=False,
          cost=100 + 20 * maxlen,
          bounds="%d-dimensional array of shape %s with any i8 lower bounds and any INTEGER contents; any write tuple, any read tuple (i16)"
                 % (d, tag),
          functions=["rusty_variant::VArray::get_element_mut", "rusty_variant::VArray::get_element", "rusty_variant::VArray::abs_index"])


def spec(tier, seed):
    b = Builder("C04")
    arr = b.file("rusty_variant/src/array_value.rs", "rusty_variant", "array_value")
    for s in SHAPES_QUICK:
        shape_harness(b, arr, s, "quick")
    for s in SHAPES_THOROUGH:
        shape_harness(b, arr, s, "thorough")
    store_harness(b, arr, (3,), "quick")
    store_harness(b, arr, (2, 2), "quick")
    store_harness(b, arr, (3, 2), "thorough")
    store_harness(b, arr, (2, 2, 2), "thorough")

    # the flat mapping far beyond small shapes: the extent of the last dimension is fixed per instance at the sizes where
    # narrower integer types would wrap (the fully symbolic version - two symbolic 17-bit multiplications - got no verdict in
    # 600 s, also with kissat); lower bounds, the first extent and both index tuples are symbolic. abs_index does not touch the
    # element vector, which is left empty.
    for e1 in (7, 255, 256, 257, 32767, 32768, 65535, 65536):
        b.add(arr, "vk_c04_abs_index_wide_2d_e%d" % e1, """
        let lb: [i16; 2] = kani::any();
        let e0: i32 = kani::any();
        kani::assume(e0 >= 1 && e0 <= 200);
        kani::assume(lb[0] as i32 + e0 - 1 <= 32767 && lb[1] as i32 + %(e1)d - 1 <= 32767);
        let ub = [lb[0] as i32 + e0 - 1, lb[1] as i32 + %(e1)d - 1];
        let arr = VArray { dimensions: vec![(lb[0] as i32, ub[0]), (lb[1] as i32, ub[1])], elements: Vec::new() };
        let i: [i16; 2] = kani::any();
        let j: [i16; 2] = kani::any();
        let inside = |t: &[i16; 2]| t[0] as i32 >= lb[0] as i32 && t[0] as i32 <= ub[0] && t[1] as i32 >= lb[1] as i32 && t[1] as i32 <= ub[1];
        let (in_i, in_j) = (inside(&i), inside(&j));
        let pi = arr.abs_index(&[i[0] as i32, i[1] as i32]);
        let pj = arr.abs_index(&[j[0] as i32, j[1] as i32]);
        assert!(pi.is_ok() == in_i && pj.is_ok() == in_j);
        if let (Ok(a), Ok(c)) = (&pi, &pj) {
            assert!((*a as i64) < e0 as i64 * %(e1)d && (*c as i64) < e0 as i64 * %(e1)d);
            assert!((*a == *c) == (i[0] == j[0] && i[1] == j[1]));      // distinct tuples, distinct elements
        }
        std::mem::forget(arr);
        """ % {"e1": e1}, unwind=4, cost=60, tier="quick",
              bounds="2-dimensional shapes (1..200) x %d with any INTEGER lower bounds; both tuples any i16" % e1,
              functions=["rusty_variant::VArray::abs_index"])

    al = b.file("rusty_basic/src/interpreter/handlers/allocation.rs", "rusty_basic", "interpreter::handlers::allocation")
    for d in (1, 2, 3):
        b.add(al, "vk_c04_to_dimensions_%dd" % d, """
        let args: [i32; %(n)d] = kani::any();        // lbound, ubound per dimension, in order
        let mut ok = true;
        let mut k = 0usize;
        while k < %(d)d { if args[2 * k + 1] < args[2 * k] { ok = false; } k += 1; }
        match to_dimensions(args.to_vec()) {
            Ok(dims) => {
                assert!(ok);
                assert!(dims.len() == %(d)d);
                let mut k = 0usize;
                while k < %(d)d { assert!(dims[k].0 == args[2 * k] && dims[k].1 == args[2 * k + 1]); k += 1; }
                std::mem::forget(dims);
            }
            Err(RuntimeError::SubscriptOutOfRange) => assert!(!ok),
            Err(e) => { std::mem::forget(e); assert!(false); }
        }
        """ % {"d": d, "n": 2 * d}, unwind=d + 3, exhaustive=True, cost=10,
              bounds="every %d-dimensional bound list (any i32 bounds)" % d,
              functions=["rusty_basic::interpreter::handlers::allocation::to_dimensions"])

    # (probed: allocate_fixed_length_string(n) for n = 0..6 - `" ".repeat(n)` - no verdict in 600 s.)
    b.add(al, "vk_c04_default_values", """
        // elements and variables start as the zero of their type
        match allocate_built_in(TypeQualifier::PercentInteger) { Variant::VInteger(0) => {}, other => { std::mem::forget(other); assert!(false); } }
        match allocate_built_in(TypeQualifier::AmpersandLong) { Variant::VLong(0) => {}, other => { std::mem::forget(other); assert!(false); } }
        match allocate_built_in(TypeQualifier::BangSingle) { Variant::VSingle(f) => assert!(f == 0.0), other => { std::mem::forget(other); assert!(false); } }
        match allocate_built_in(TypeQualifier::HashDouble) { Variant::VDouble(f) => assert!(f == 0.0), other => { std::mem::forget(other); assert!(false); } }
        match allocate_built_in(TypeQualifier::DollarString) { Variant::VString(s) => { assert!(s.is_empty()); std::mem::forget(s); }, other => { std::mem::forget(other); assert!(false); } }
        """, unwind=2, exhaustive=True, cost=10, bounds="the five built-in types",
          functions=["rusty_basic::interpreter::handlers::allocation::allocate_built_in"])

    # (probed: InstructionGenerator::generate_fix_string_length on one by-reference argument of symbolic STRING * n type -
    # CBMC resource failure after 140-200 s; Expression::expression_type clones the recursive ExpressionType enum.  Outside.)

    # STRING * n: fix_length pads with blanks or truncates to exactly n characters; a NUL ends the text.  (With the text built by
    # String::push and a symbolic target length CBMC ran out of memory; with the bytes chosen from constants, copied in one piece and the
    # target length fixed per instance it is decided in about a minute.)
    import strkernels as sk
    su = b.file(sk.SU_FILE, "rusty_basic", "interpreter::string_utils")
    for shape, length, t in (("", 2, "quick"), ("x", 0, "quick"), ("xx", 2, "quick"), ("xxx", 2, "quick"), ("xx", 4, "quick"),
                             ("xxx", 5, "thorough"), ("xxxx", 1, "thorough"), ("xxxx", 3, "thorough")):
        sk.fix_length_kernel(b, su, "vk_c04", shape, length, t)

    return b.build(
        tier,
        bounds="1-, 2-, 3-dimensional shapes; lower bounds any i8; extents <= 4, 4x4, 2x2x2 (quick) and <= 8, 6x4, 4x3x2, 3x3x3 (thorough); "
               "indices any i16; store/load on INTEGER arrays of shape 3, 2x2 (quick), 3x2, 2x2x2 (thorough, non-core)",
        outside="records (HashMap-backed), the emission of FixLength by the generator (STRING * n assigned through a by-reference parameter), "
                "element conversion on store (Cast emission), by-reference routes, "
                "the resolution of variable paths to the array (var_path.rs)",
        assumptions=["subscripts reach VArray as INTEGER values (the generator casts every subscript)"],
    )
