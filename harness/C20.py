"""C20 - parser combinators honour their backtracking and error contract (DESIGN 4/C20).

Sub-parsers are ARBITRARY objects constrained only by the contract K:
  success never moves the position backwards; a soft failure leaves it where it started; a fatal error is fatal.
Every call of a mock sub-parser picks its behaviour by kani::any() and writes a log entry (who, where, outcome, value,
context).  A combinator applied to such sub-parsers must (1) satisfy K itself and (2) have its documented meaning, read
off the log.  Since the sub-parsers are arbitrary, each verdict is an inductive step over parser expressions.
"""
from vklib import Builder

INFRA = r"""
    use std::marker::PhantomData;

    // ---------------------------------------------------------------- abstract input: a position only
    pub struct VkInput { pub pos: usize }
    impl InputTrait for VkInput {
        type Output = u8;
        fn peek(&self) -> u8 { 7 }
        fn read(&mut self) -> u8 { self.pos += 1; 7 }
        fn get_position(&self) -> usize { self.pos }
        fn is_eof(&self) -> bool { false }
        fn set_position(&mut self, position: usize) { self.pos = position; }
    }

    #[derive(Clone, Default, PartialEq, Debug)]
    pub struct VkErr { pub fatal: bool, pub id: u8 }
    impl ParserErrorTrait for VkErr {
        fn is_fatal(&self) -> bool { self.fatal }
        fn to_fatal(self) -> Self { VkErr { fatal: true, id: self.id } }
    }
    impl From<u8> for VkErr { fn from(id: u8) -> Self { VkErr { fatal: false, id } } }

    // ---------------------------------------------------------------- the call log
    pub const VK_MAX: usize = 8;
    pub const OK: u8 = 0;
    pub const SOFT: u8 = 1;
    pub const FATAL: u8 = 2;
    pub struct VkLog {
        pub n: usize, pub budget: usize,
        pub who: [u8; VK_MAX], pub at: [usize; VK_MAX], pub end: [usize; VK_MAX], pub out: [u8; VK_MAX],
        pub val: [u8; VK_MAX], pub ctx: [u8; VK_MAX],
    }
    pub static mut VK_LOG: VkLog = VkLog { n: 0, budget: 7, who: [0; VK_MAX], at: [0; VK_MAX], end: [0; VK_MAX],
        out: [0; VK_MAX], val: [0; VK_MAX], ctx: [0; VK_MAX] };
    pub fn vk_log() -> &'static mut VkLog { unsafe { &mut *std::ptr::addr_of_mut!(VK_LOG) } }
    pub fn vk_reset(budget: usize) { let l = vk_log(); l.n = 0; l.budget = budget; }

    pub trait VkCtx { fn code(&self) -> u8; }
    impl VkCtx for u8 { fn code(&self) -> u8 { *self } }
    impl VkCtx for () { fn code(&self) -> u8 { 0 } }
    impl VkCtx for bool { fn code(&self) -> u8 { if *self { 1 } else { 0 } } }

    // ---------------------------------------------------------------- an arbitrary parser that satisfies K
    pub struct VkAny { pub id: u8, pub ctx: u8, pub progress: bool, pub leaky: bool }
    pub fn vk_any(id: u8) -> VkAny { VkAny { id, ctx: 200, progress: false, leaky: false } }
    /// a parser of the documented non-rewinding kind (and_then, flatten, seq*): a soft failure may leave the position moved
    pub fn vk_any_leaky(id: u8) -> VkAny { VkAny { id, ctx: 200, progress: false, leaky: true } }
    pub fn vk_any_progress(id: u8) -> VkAny { VkAny { id, ctx: 200, progress: true, leaky: false } }
    impl VkAny {
        pub fn run(&mut self, input: &mut VkInput) -> Result<u8, VkErr> {
            let log = vk_log();
            let start = input.pos;
            let k: u8 = kani::any();
            kani::assume(k < 3);
            if log.n >= log.budget { kani::assume(k == SOFT); }      // bounds the number of successes per harness
            let adv: usize = kani::any();
            kani::assume(adv <= 3);
            if self.progress && k == OK { kani::assume(adv >= 1); }
            let val: u8 = kani::any();
            if k != SOFT || self.leaky { input.pos = start + adv; }   // a soft failure leaves the position where it was (unless leaky)
            if log.n < VK_MAX {
                log.who[log.n] = self.id; log.at[log.n] = start; log.end[log.n] = input.pos; log.out[log.n] = k;
                log.val[log.n] = val; log.ctx[log.n] = self.ctx;
            }
            log.n += 1;
            match k {
                OK => Ok(val),
                SOFT => Err(VkErr { fatal: false, id: val }),
                _ => Err(VkErr { fatal: true, id: val }),
            }
        }
    }
    impl Parser<VkInput, u8> for VkAny {
        type Output = u8;
        type Error = VkErr;
        fn parse(&mut self, input: &mut VkInput) -> Result<u8, VkErr> { self.run(input) }
        fn set_context(&mut self, c: &u8) { self.ctx = *c; }
    }
    /// the same with the unit context (IifCtxParser wants context-free branches)
    pub struct VkAnyU(pub VkAny);
    impl Parser<VkInput, ()> for VkAnyU {
        type Output = u8;
        type Error = VkErr;
        fn parse(&mut self, input: &mut VkInput) -> Result<u8, VkErr> { self.0.run(input) }
        fn set_context(&mut self, _c: &()) {}
    }

    /// a K-respecting parser whose output is itself a parser (for flatten)
    pub struct VkOuter { pub inner: VkAny }
    impl Parser<VkInput, u8> for VkOuter {
        type Output = VkAny;
        type Error = VkErr;
        fn parse(&mut self, input: &mut VkInput) -> Result<VkAny, VkErr> {
            match self.inner.run(input) { Ok(v) => Ok(vk_any(100)), Err(e) => Err(e) }
        }
        fn set_context(&mut self, c: &u8) { self.inner.ctx = *c; }
    }

    /// the contract K, for the combinator under test
    macro_rules! vk_k {
        ($start:expr, $input:expr, $r:expr) => {
            match &$r {
                Ok(_) => assert!($input.pos >= $start),
                Err(e) => { if !e.fatal { assert!($input.pos == $start); } }
            }
        };
    }
    /// outcome class of a result
    macro_rules! vk_class {
        ($r:expr) => { match &$r { Ok(_) => OK, Err(e) => if e.fatal { FATAL } else { SOFT } } };
    }
    pub fn vk_start() -> (VkInput, usize) {
        let s: usize = kani::any();
        kani::assume(s <= 4);
        (VkInput { pos: s }, s)
    }

    // ---------------------------------------------------------------- array-collecting combiner (no heap)
    #[derive(Default, Clone, Copy)]
    pub struct VkArr { pub v: [u8; VK_MAX], pub n: usize }
    pub struct VkArrCombiner;
    impl crate::many::ManyCombiner<u8, VkArr> for VkArrCombiner {
        fn seed(&self, e: u8) -> VkArr { let mut a = VkArr::default(); a.v[0] = e; a.n = 1; a }
        fn accumulate(&self, mut a: VkArr, e: u8) -> VkArr { if a.n < VK_MAX { a.v[a.n] = e; } a.n += 1; a }
    }

    #[derive(Clone, Copy)]
    pub struct VkChars { pub v: [char; VK_MAX], pub n: usize }
    impl Default for VkChars { fn default() -> Self { VkChars { v: ['?'; VK_MAX], n: 0 } } }
    pub struct VkCharCombiner;
    impl crate::many::ManyCombiner<char, VkChars> for VkCharCombiner {
        fn seed(&self, e: char) -> VkChars { let mut a = VkChars::default(); a.v[0] = e; a.n = 1; a }
        fn accumulate(&self, mut a: VkChars, e: char) -> VkChars { if a.n < VK_MAX { a.v[a.n] = e; } a.n += 1; a }
    }

    // ---------------------------------------------------------------- concrete input with content (for the primitives)
    pub struct VkText<T: Copy> { pub data: [T; 6], pub len: usize, pub pos: usize }
    impl<T: Copy> InputTrait for VkText<T> {
        type Output = T;
        fn peek(&self) -> T { self.data[self.pos] }
        fn read(&mut self) -> T { let c = self.data[self.pos]; self.pos += 1; c }
        fn get_position(&self) -> usize { self.pos }
        fn is_eof(&self) -> bool { self.pos >= self.len }
        fn set_position(&mut self, position: usize) { self.pos = position; }
    }
    pub fn vk_bytes() -> VkText<u8> {
        let data: [u8; 6] = kani::any();
        let len: usize = kani::any();
        let pos: usize = kani::any();
        kani::assume(len <= 6 && pos <= len);
        VkText { data, len, pos }
    }
"""

H = []   # (name, body, kwargs)


def add(name, body, **kw):
    H.append((name, body, kw))


# ------------------------------------------------------------------------------------------------ and
for variant, build, val in (
    ("and_tuple", "vk_any(1).and_tuple(vk_any(2))", "v == (l.val[0], l.val[1])"),
    ("and_keep_left", "vk_any(1).and_keep_left(vk_any(2))", "v == l.val[0]"),
    ("and_keep_right", "vk_any(1).and_keep_right(vk_any(2))", "v == l.val[1]"),
    ("and_combiner", "vk_any(1).and(vk_any(2), |a: u8, b: u8| (b, a))", "v == (l.val[1], l.val[0])"),
):
    add("vk_c20_" + variant, """
        vk_reset(7);
        let (mut input, start) = vk_start();
        let mut p = %s;
        let r = Parser::<VkInput, u8>::parse(&mut p, &mut input);
        vk_k!(start, input, r);
        let l = vk_log();
        assert!(l.who[0] == 1 && l.at[0] == start);                  // the left side runs first, at the start
        if l.out[0] != OK {
            assert!(l.n == 1);                                        // the right side is not tried
            match &r { Err(e) => assert!(e.fatal == (l.out[0] == FATAL) && e.id == l.val[0]), Ok(_) => assert!(false) }
            if l.out[0] == FATAL { assert!(input.pos == l.end[0]); }
        } else {
            assert!(l.n == 2 && l.who[1] == 2 && l.at[1] == l.end[0]);   // the right side continues where the left ended
            match &r {
                Ok(v) => { assert!(l.out[1] == OK); assert!(*%s); assert!(input.pos == l.end[1]); }
                Err(e) => {
                    assert!(l.out[1] != OK && e.fatal == (l.out[1] == FATAL) && e.id == l.val[1]);
                    if !e.fatal { assert!(input.pos == start); }       // a soft failure of the right side undoes the left side
                }
            }
        }
        """ % (build, val.replace("v ==", "v ==")), functions=["rusty_pc::and::AndParser::parse", "rusty_pc::Parser::" + variant.replace("and_combiner", "and")])

add("vk_c20_and_undo_with_non_rewinding_right", """
        // sequence-with-undo restores the position itself: even a right side of the non-rewinding kind is undone
        vk_reset(7);
        let (mut input, start) = vk_start();
        let mut p = vk_any(1).and_tuple(vk_any_leaky(2));
        let r = Parser::<VkInput, u8>::parse(&mut p, &mut input);
        vk_k!(start, input, r);
        let l = vk_log();
        if l.n == 2 && l.out[1] == SOFT { assert!(input.pos == start); }
        """, functions=["rusty_pc::and::AndParser::parse"])
add("vk_c20_surround_optional_with_non_rewinding_content", """
        vk_reset(7);
        let (mut input, start) = vk_start();
        let mut p = surround(vk_any(1), vk_any_leaky(2), vk_any(3), SurroundMode::Optional);
        let r = Parser::<VkInput, u8>::parse(&mut p, &mut input);
        vk_k!(start, input, r);
        let l = vk_log();
        if l.n == 2 && l.out[0] != FATAL && l.out[1] == SOFT { assert!(input.pos == start && vk_class!(r) == SOFT); }
        """, functions=["rusty_pc::SurroundParser::parse"])
# ------------------------------------------------------------------------------------------------ choice
add("vk_c20_or_boxed3", """
        vk_reset(7);
        let (mut input, start) = vk_start();
        let alts: Vec<Box<dyn Parser<VkInput, u8, Output = u8, Error = VkErr>>> =
            vec![Box::new(vk_any(1)), Box::new(vk_any(2)), Box::new(vk_any(3))];
        let mut p = OrParser::new(alts);
        let r = p.parse(&mut input);
        vk_k!(start, input, r);
        let l = vk_log();
        assert!(l.n >= 1 && l.n <= 3);
        let mut k = 0usize;
        while k < 3 {
            if k < l.n {
                assert!(l.who[k] == (k as u8) + 1);                  // alternatives are tried in order
                assert!(l.at[k] == start);                           // each from the original position
                if k + 1 < l.n { assert!(l.out[k] == SOFT); }       // an alternative is tried only after the previous ones failed softly
            }
            k += 1;
        }
        let last = l.n - 1;
        if l.n < 3 { assert!(l.out[last] != SOFT); }                // stops early only on success or on a fatal error
        // the result is that of the last alternative tried: the first that succeeded / failed fatally, or the final soft failure
        match &r {
            Ok(v) => { assert!(l.out[last] == OK && *v == l.val[last] && input.pos == l.end[last]); }
            Err(e) => { assert!(l.out[last] != OK && e.fatal == (l.out[last] == FATAL) && e.id == l.val[last]); }
        }
        std::mem::forget(p);
        """, unwind=5, functions=["rusty_pc::OrParser::parse", "rusty_pc::OrParser::new"])
add("vk_c20_or_boxed3_retry_position", """
        // alternatives of the documented non-rewinding kind (built with and_then / flatten / seq*): boxed choice itself
        // restores the position before each retry, so every alternative still starts from the original position
        vk_reset(7);
        let (mut input, start) = vk_start();
        let alts: Vec<Box<dyn Parser<VkInput, u8, Output = u8, Error = VkErr>>> =
            vec![Box::new(vk_any_leaky(1)), Box::new(vk_any_leaky(2)), Box::new(vk_any_leaky(3))];
        let mut p = OrParser::new(alts);
        let r = p.parse(&mut input);
        let l = vk_log();
        assert!(l.n >= 1 && l.n <= 3);
        let mut k = 0usize;
        while k < 3 {
            if k < l.n {
                assert!(l.who[k] == (k as u8) + 1);
                assert!(l.at[k] == start);                           // choice tries each alternative from the original position
                if k + 1 < l.n { assert!(l.out[k] == SOFT); }
            }
            k += 1;
        }
        let last = l.n - 1;
        if l.n < 3 { assert!(l.out[last] != SOFT); }
        match &r {
            Ok(v) => { assert!(l.out[last] == OK && *v == l.val[last] && input.pos == l.end[last]); }
            Err(e) => { assert!(l.out[last] != OK && e.fatal == (l.out[last] == FATAL) && e.id == l.val[last]); }
        }
        std::mem::forget(p);
        """, unwind=5, functions=["rusty_pc::OrParser::parse"])
add("vk_c20_or_two_way", """
        vk_reset(7);
        let (mut input, start) = vk_start();
        let mut p = vk_any(1).or(vk_any(2));
        let r = Parser::<VkInput, u8>::parse(&mut p, &mut input);
        vk_k!(start, input, r);
        let l = vk_log();
        assert!(l.who[0] == 1 && l.at[0] == start);
        if l.out[0] == SOFT {
            assert!(l.n == 2 && l.who[1] == 2 && l.at[1] == start);
            assert!(vk_class!(r) == l.out[1]);
            match &r { Ok(v) => assert!(*v == l.val[1]), Err(e) => assert!(e.id == l.val[1]) }
        } else {
            assert!(l.n == 1);                                        // the first alternative that succeeds (or fails fatally) wins
            assert!(vk_class!(r) == l.out[0]);
            match &r { Ok(v) => assert!(*v == l.val[0]), Err(e) => assert!(e.id == l.val[0]) }
        }
        """, functions=["rusty_pc::OrParserNoBox::parse", "rusty_pc::Or::or"])

# ------------------------------------------------------------------------------------------------ repetition
for allow_none in (False, True):
    nm = "many_allow_none" if allow_none else "many"
    add("vk_c20_" + nm, """
        vk_reset(6);
        let (mut input, start) = vk_start();
        let mut p = vk_any_progress(1).%s(VkArrCombiner);
        let r = Parser::<VkInput, u8>::parse(&mut p, &mut input);
        vk_k!(start, input, r);
        let l = vk_log();
        // the element parser is called again and again, each time where the previous call ended, until it fails
        let mut k = 0usize;
        while k < VK_MAX {
            if k < l.n {
                assert!(l.at[k] == if k == 0 { start } else { l.end[k - 1] });
                if k + 1 < l.n { assert!(l.out[k] == OK); }
            }
            k += 1;
        }
        let last = l.n - 1;
        assert!(l.out[last] != OK);
        match &r {
            Ok(a) => {
                assert!(l.out[last] == SOFT);                        // ends at the first soft failure
                assert!(a.n == last);                                 // exactly the run of successes, in order
                let mut k = 0usize;
                while k < VK_MAX { if k < a.n { assert!(a.v[k] == l.val[k]); } k += 1; }
                assert!(input.pos == if last == 0 { start } else { l.end[last - 1] });
                if last == 0 { assert!(%s); }
            }
            Err(e) => {
                assert!(e.id == l.val[last]);
                if e.fatal { assert!(l.out[last] == FATAL); } else { assert!(last == 0 && !(%s)); }
            }
        }
        """ % (nm, "true" if allow_none else "false", "true" if allow_none else "false"), unwind=9,
        functions=["rusty_pc::many::ManyParser::parse", "rusty_pc::Parser::" + nm])
add("vk_c20_one_or_more_vec", """
        vk_reset(3);
        let (mut input, start) = vk_start();
        let mut p = vk_any_progress(1).one_or_more();
        let r = Parser::<VkInput, u8>::parse(&mut p, &mut input);
        vk_k!(start, input, r);
        let l = vk_log();
        let last = l.n - 1;
        match r {
            Ok(v) => {
                assert!(last >= 1 && v.len() == last);
                let mut k = 0usize;
                while k < 3 { if k < v.len() { assert!(v[k] == l.val[k]); } k += 1; }
                std::mem::forget(v);
            }
            Err(e) => assert!(e.fatal || last == 0),
        }
        """, unwind=6, functions=["rusty_pc::Parser::one_or_more", "rusty_pc::many::VecManyCombiner"])
add("vk_c20_zero_or_more_vec", """
        vk_reset(3);
        let (mut input, start) = vk_start();
        let mut p = vk_any_progress(1).zero_or_more();
        let r = Parser::<VkInput, u8>::parse(&mut p, &mut input);
        vk_k!(start, input, r);
        let l = vk_log();
        let last = l.n - 1;
        match r {
            Ok(v) => { assert!(v.len() == last); std::mem::forget(v); }
            Err(e) => assert!(e.fatal),                                // never a soft failure
        }
        """, unwind=6, functions=["rusty_pc::Parser::zero_or_more", "rusty_pc::many::VecManyCombiner"])
for allow_none in (False, True):
    add("vk_c20_many_ctx_%s" % ("allow_none" if allow_none else "demand"), """
        vk_reset(5);
        let (mut input, start) = vk_start();
        let mut p = crate::many_ctx::ManyCtxParser::new::<VkInput>(vk_any_progress(1), VkArrCombiner, |v: &u8| v.wrapping_add(1), %s);
        let r = Parser::<VkInput, u8>::parse(&mut p, &mut input);
        vk_k!(start, input, r);
        let l = vk_log();
        let mut k = 0usize;
        while k < VK_MAX {
            if k < l.n {
                assert!(l.at[k] == if k == 0 { start } else { l.end[k - 1] });
                // the context of each call is derived from the previous element; the first call sees the default context
                assert!(l.ctx[k] == if k == 0 { 0 } else { l.val[k - 1].wrapping_add(1) });
                if k + 1 < l.n { assert!(l.out[k] == OK); }
            }
            k += 1;
        }
        let last = l.n - 1;
        match &r {
            Ok(a) => { assert!(l.out[last] == SOFT && a.n == last); if last == 0 { assert!(%s); } }
            Err(e) => { if !e.fatal { assert!(last == 0 && !(%s)); } else { assert!(l.out[last] == FATAL); } }
        }
        """ % (("true",) * 3 if allow_none else ("false",) * 3), unwind=10,
        functions=["rusty_pc::many_ctx::ManyCtxParser::parse"])

# ------------------------------------------------------------------------------------------------ filter, peek, option, default
add("vk_c20_filter", """
        vk_reset(7);
        let (mut input, start) = vk_start();
        let keep: bool = kani::any();
        let mut p = vk_any(1).filter(move |_v: &u8| keep);
        let r = Parser::<VkInput, u8>::parse(&mut p, &mut input);
        vk_k!(start, input, r);
        let l = vk_log();
        assert!(l.n == 1 && l.at[0] == start);
        match &r {
            Ok(v) => assert!(l.out[0] == OK && keep && *v == l.val[0] && input.pos == l.end[0]),
            Err(e) => {
                if l.out[0] == OK { assert!(!keep && !e.fatal && input.pos == start); }    // rejected by the predicate: rewound, soft
                else { assert!(e.fatal == (l.out[0] == FATAL) && e.id == l.val[0]); }
            }
        }
        """, functions=["rusty_pc::filter::FilterParser::parse"])
add("vk_c20_filter_map", """
        vk_reset(7);
        let (mut input, start) = vk_start();
        let keep: bool = kani::any();
        let mut p = vk_any(1).filter_map(move |v: &u8| if keep { Some((*v, 9u8)) } else { None });
        let r = Parser::<VkInput, u8>::parse(&mut p, &mut input);
        vk_k!(start, input, r);
        let l = vk_log();
        assert!(l.n == 1);
        match &r {
            Ok(v) => assert!(l.out[0] == OK && keep && *v == (l.val[0], 9) && input.pos == l.end[0]),
            Err(e) => {
                if l.out[0] == OK { assert!(!keep && !e.fatal && input.pos == start); }
                else { assert!(e.fatal == (l.out[0] == FATAL) && e.id == l.val[0]); }
            }
        }
        """, functions=["rusty_pc::filter_map::FilterMapParser::parse"])
add("vk_c20_peek", """
        vk_reset(7);
        let (mut input, start) = vk_start();
        let mut p = vk_any(1).peek();
        let r = Parser::<VkInput, u8>::parse(&mut p, &mut input);
        vk_k!(start, input, r);
        let l = vk_log();
        assert!(l.n == 1);
        match &r {
            Ok(v) => assert!(l.out[0] == OK && *v == l.val[0] && input.pos == start),     // never consumes
            Err(e) => assert!(e.fatal == (l.out[0] == FATAL) && e.id == l.val[0]),
        }
        """, functions=["rusty_pc::peek::PeekParser::parse"])
add("vk_c20_to_option", """
        vk_reset(7);
        let (mut input, start) = vk_start();
        let mut p = vk_any(1).to_option();
        let r = Parser::<VkInput, u8>::parse(&mut p, &mut input);
        vk_k!(start, input, r);
        let l = vk_log();
        assert!(l.n == 1);
        match &r {
            Ok(Some(v)) => assert!(l.out[0] == OK && *v == l.val[0] && input.pos == l.end[0]),
            Ok(None) => assert!(l.out[0] == SOFT && input.pos == start),                    // succeeds without consuming
            Err(e) => assert!(l.out[0] == FATAL && e.fatal && e.id == l.val[0]),           // a fatal error is never swallowed
        }
        """, functions=["rusty_pc::to_option::ToOptionParser"])
add("vk_c20_or_default", """
        vk_reset(7);
        let (mut input, start) = vk_start();
        let mut p = vk_any(1).or_default();
        let r = Parser::<VkInput, u8>::parse(&mut p, &mut input);
        vk_k!(start, input, r);
        let l = vk_log();
        assert!(l.n == 1);
        match &r {
            Ok(v) => {
                if l.out[0] == OK { assert!(*v == l.val[0] && input.pos == l.end[0]); }
                else { assert!(l.out[0] == SOFT && *v == 0 && input.pos == start); }
            }
            Err(e) => assert!(l.out[0] == FATAL && e.fatal && e.id == l.val[0]),
        }
        """, functions=["rusty_pc::or_default::OrDefaultParser"])

# ------------------------------------------------------------------------------------------------ surround
add("vk_c20_surround_optional", """
        vk_reset(7);
        let (mut input, start) = vk_start();
        let mut p = surround(vk_any(1), vk_any(2), vk_any(3), SurroundMode::Optional);
        let r = Parser::<VkInput, u8>::parse(&mut p, &mut input);
        vk_k!(start, input, r);
        let l = vk_log();
        assert!(l.who[0] == 1 && l.at[0] == start);
        if l.out[0] == FATAL {
            assert!(l.n == 1 && vk_class!(r) == FATAL);
        } else {
            // the content is attempted even if the left boundary is missing
            assert!(l.n >= 2 && l.who[1] == 2 && l.at[1] == l.end[0]);
            match l.out[1] {
                OK => {
                    assert!(l.n == 3 && l.who[2] == 3 && l.at[2] == l.end[1]);
                    match &r {
                        Ok(v) => assert!(l.out[2] != FATAL && *v == l.val[1] && input.pos == l.end[2]),   // a missing right boundary is fine
                        Err(e) => assert!(l.out[2] == FATAL && e.fatal),
                    }
                }
                SOFT => {
                    // missing content: soft failure and the left boundary is given back
                    assert!(l.n == 2);
                    match &r { Err(e) => assert!(!e.fatal && e.id == l.val[1] && input.pos == start), Ok(_) => assert!(false) }
                }
                _ => { assert!(l.n == 2 && vk_class!(r) == FATAL); }
            }
        }
        """, functions=["rusty_pc::SurroundParser::parse", "rusty_pc::surround"])
add("vk_c20_surround_mandatory", """
        vk_reset(7);
        let (mut input, start) = vk_start();
        let mut p = surround(vk_any(1), vk_any(2), vk_any(3), SurroundMode::Mandatory);
        let r = Parser::<VkInput, u8>::parse(&mut p, &mut input);
        vk_k!(start, input, r);
        let l = vk_log();
        assert!(l.who[0] == 1 && l.at[0] == start);
        if l.out[0] != OK {
            // a missing left boundary is a soft failure, a fatal one stays fatal
            assert!(l.n == 1 && vk_class!(r) == l.out[0]);
        } else {
            assert!(l.n >= 2 && l.who[1] == 2 && l.at[1] == l.end[0]);
            if l.out[1] != OK {
                assert!(l.n == 2 && vk_class!(r) == FATAL);                 // missing content is fatal
            } else {
                assert!(l.n == 3 && l.who[2] == 3 && l.at[2] == l.end[1]);
                match &r {
                    Ok(v) => assert!(l.out[2] == OK && *v == l.val[1] && input.pos == l.end[2]),
                    Err(e) => assert!(l.out[2] != OK && e.fatal),            // missing right boundary is fatal
                }
            }
        }
        """, functions=["rusty_pc::SurroundParser::parse"])

# ------------------------------------------------------------------------------------------------ delimited lists
for allow_missing, budget in ((False, 5), (True, 5), (False, 3), (True, 4)):
    nm = ("delimited_by_allow_missing" if allow_missing else "delimited_by")
    # the small-budget twins exist for the replay: the playback run of the larger ones (result vector on the heap, full trace)
    # needs more than 40 GB, so a counterexample of them cannot be extracted
    add("vk_c20_" + nm + ("" if budget == 5 else "_short"), """
        vk_reset(%d);
        let (mut input, start) = vk_start();
        let mut p = vk_any_progress(1).%s(vk_any_progress(2), VkErr { fatal: true, id: 77 });
        let r = Parser::<VkInput, u8>::parse(&mut p, &mut input);
        let cls = vk_class!(r);
        vk_k!(start, input, r);
        let l = vk_log();
        // calls alternate element, delimiter, element, ... each continuing where the previous one ended
        let mut k = 0usize;
        let mut elements = 0usize;
        let mut pos = start;
        while k < VK_MAX {
            if k < l.n {
                assert!(l.who[k] == if k %% 2 == 0 { 1 } else { 2 });
                assert!(l.at[k] == pos);
                pos = l.end[k];
                if k %% 2 == 0 && l.out[k] == OK { elements += 1; }
            }
            k += 1;
        }
        let last = l.n - 1;
        if cls == OK {
            // ends successfully after an element: the last delimiter attempt failed softly right after a parsed element
            assert!(last %% 2 == 1 && l.out[last] == SOFT && l.out[last - 1] == OK);
        }
        if cls == SOFT {
            assert!(l.n == 2 && l.out[0] == SOFT && l.out[1] == SOFT);      // nothing was read at all
        }
        if last %% 2 == 1 && l.out[last] == SOFT && last >= 3 && l.out[last - 1] == SOFT {
            assert!(cls == FATAL);                                              // a trailing delimiter is rejected fatally
            match &r { Err(e) => assert!(e.id == 77), Ok(_) => {} }
        }
        if l.out[last] == FATAL { assert!(cls == FATAL); }                     // a fatal error is never swallowed
        match r {
            Ok(v) => {
                %s
                std::mem::forget(v);
            }
            Err(e) => std::mem::forget(e),
        }
        """ % (budget, nm, "assert!(v.len() >= elements);" if allow_missing else "assert!(v.len() == elements);"), unwind=9,
        functions=["rusty_pc::delimited::DelimitedParser::parse", "rusty_pc::Parser::" + nm])

# ------------------------------------------------------------------------------------------------ sequences
for n in (2, 3, 4, 5, 6):
    args = ", ".join("vk_any(%d)" % (k + 1) for k in range(n))
    params = ", ".join("a%d: u8" % k for k in range(n))
    tup = "[" + ", ".join("a%d" % k for k in range(n)) + "]"
    add("vk_c20_seq%d" % n, """
        vk_reset(7);
        let (mut input, start) = vk_start();
        let mut p = seq%(n)d(%(args)s, |%(params)s| %(tup)s);
        let r = Parser::<VkInput, u8>::parse(&mut p, &mut input);
        vk_k!(start, input, r);
        let l = vk_log();
        let mut k = 0usize;
        while k < %(n)d {
            if k < l.n {
                assert!(l.who[k] == (k as u8) + 1);
                assert!(l.at[k] == if k == 0 { start } else { l.end[k - 1] });
                if k + 1 < l.n { assert!(l.out[k] == OK); }
            }
            k += 1;
        }
        let last = l.n - 1;
        match &r {
            Ok(v) => {
                assert!(l.n == %(n)d && l.out[last] == OK);
                let mut k = 0usize;
                while k < %(n)d { assert!(v[k] == l.val[k]); k += 1; }
            }
            Err(e) => {
                assert!(l.out[last] != OK && e.id == l.val[last]);
                // only the first element may fail softly; every later failure is fatal
                assert!(e.fatal == (last > 0 || l.out[0] == FATAL));
            }
        }
        std::mem::forget(p);
        """ % {"n": n, "args": args, "params": params, "tup": tup}, unwind=n + 2,
        functions=["rusty_pc::seq%d" % n, "rusty_pc::seq::Seq%d::parse" % n])
add("vk_c20_then_with_in_context", """
        vk_reset(7);
        let (mut input, start) = vk_start();
        let mut p = vk_any(1).then_with_in_context(vk_any(2), |a: u8, b: u8| (a, b));
        p.set_context(&42u8);
        let r = Parser::<VkInput, u8>::parse(&mut p, &mut input);
        vk_k!(start, input, r);
        let l = vk_log();
        assert!(l.who[0] == 1 && l.at[0] == start && l.ctx[0] == 42);
        if l.out[0] != OK {
            assert!(l.n == 1 && vk_class!(r) == l.out[0]);
        } else {
            assert!(l.n == 2 && l.who[1] == 2 && l.at[1] == l.end[0]);
            assert!(l.ctx[1] == l.val[0]);                                    // the left result is the right side's context
            match &r {
                Ok(v) => assert!(l.out[1] == OK && *v == (l.val[0], l.val[1])),
                Err(e) => assert!(l.out[1] != OK && e.fatal && e.id == l.val[1]),     // the right side is not optional
            }
        }
        """, functions=["rusty_pc::ThenWithContextParser::parse"])

# ------------------------------------------------------------------------------------------------ mapping decorators
add("vk_c20_and_then", """
        vk_reset(7);
        let (mut input, start) = vk_start();
        let verdict: u8 = kani::any();
        kani::assume(verdict < 3);
        let mut p = vk_any(1).and_then(move |v: u8| match verdict {
            0 => Ok((v, 5u8)), 1 => Err(VkErr { fatal: false, id: 50 }), _ => Err(VkErr { fatal: true, id: 51 }) });
        let r = Parser::<VkInput, u8>::parse(&mut p, &mut input);
        let l = vk_log();
        assert!(l.n == 1);
        // documented as non-rewinding: the position is where the wrapped parser left it, whatever the mapper says
        assert!(input.pos == l.end[0]);
        match &r {
            Ok(v) => assert!(l.out[0] == OK && verdict == 0 && *v == (l.val[0], 5)),
            Err(e) => {
                if l.out[0] == OK { assert!(verdict != 0 && e.fatal == (verdict == 2) && e.id == 49 + verdict); }
                else { assert!(e.fatal == (l.out[0] == FATAL) && e.id == l.val[0]); }     // the mapper is not consulted
            }
        }
        """, functions=["rusty_pc::and_then::AndThenParser", "rusty_pc::map_decorator::MapDecorator::parse"])
add("vk_c20_and_then_err", """
        vk_reset(7);
        let (mut input, start) = vk_start();
        let verdict: u8 = kani::any();
        kani::assume(verdict < 3);
        let mut p = vk_any(1).and_then_err(move |e: VkErr| match verdict {
            0 => Ok(e.id), 1 => Err(VkErr { fatal: false, id: 50 }), _ => Err(VkErr { fatal: true, id: 51 }) });
        let r = Parser::<VkInput, u8>::parse(&mut p, &mut input);
        let l = vk_log();
        assert!(l.n == 1 && input.pos == l.end[0]);
        match l.out[0] {
            OK => match &r { Ok(v) => assert!(*v == l.val[0]), Err(_) => assert!(false) },
            SOFT => match &r {                                               // only soft errors reach the mapper
                Ok(v) => assert!(verdict == 0 && *v == l.val[0]),
                Err(e) => assert!(verdict != 0 && e.fatal == (verdict == 2)),
            },
            _ => match &r { Err(e) => assert!(e.fatal && e.id == l.val[0]), Ok(_) => assert!(false) },
        }
        """, functions=["rusty_pc::and_then_err::AndThenErrParser"])
add("vk_c20_map", """
        vk_reset(7);
        let (mut input, start) = vk_start();
        let mut p = vk_any(1).map(|v: u8| (v, 3u8));
        let r = Parser::<VkInput, u8>::parse(&mut p, &mut input);
        vk_k!(start, input, r);
        let l = vk_log();
        assert!(l.n == 1 && input.pos == l.end[0] && vk_class!(r) == l.out[0]);
        match &r { Ok(v) => assert!(*v == (l.val[0], 3)), Err(e) => assert!(e.id == l.val[0]) }
        vk_reset(7);
        let (mut input, start) = vk_start();
        let mut q = vk_any(1).map_to_unit();
        let r = Parser::<VkInput, u8>::parse(&mut q, &mut input);
        vk_k!(start, input, r);
        let l = vk_log();
        assert!(l.n == 1 && input.pos == l.end[0] && vk_class!(r) == l.out[0]);
        """, functions=["rusty_pc::map::MapParser", "rusty_pc::map::MapToUnitParser"])
for nm, build, repl_fatal in (
    ("with_soft_err", "vk_any(1).with_soft_err(VkErr { fatal: false, id: 60 })", "false"),
    ("or_fail", "vk_any(1).or_fail(VkErr { fatal: true, id: 60 })", "true"),
    ("or_expected", "vk_any(1).or_expected(60u8)", "true"),
    ("with_expected_message", "vk_any(1).with_expected_message(60u8)", "false"),
):
    add("vk_c20_" + nm, """
        vk_reset(7);
        let (mut input, start) = vk_start();
        let mut p = %s;
        let r = Parser::<VkInput, u8>::parse(&mut p, &mut input);
        let l = vk_log();
        assert!(l.n == 1 && input.pos == l.end[0]);
        match l.out[0] {
            OK => match &r { Ok(v) => assert!(*v == l.val[0]), Err(_) => assert!(false) },
            // exactly the soft errors are replaced by the given error
            SOFT => match &r { Err(e) => assert!(e.id == 60 && e.fatal == %s), Ok(_) => assert!(false) },
            _ => match &r { Err(e) => assert!(e.fatal && e.id == l.val[0]), Ok(_) => assert!(false) },
        }
        if !%s { vk_k!(start, input, r); }
        """ % (build, repl_fatal, repl_fatal), functions=["rusty_pc::map_soft_err::MapSoftErrParser", "rusty_pc::Parser::" + nm])
add("vk_c20_map_fatal_err", """
        vk_reset(7);
        let (mut input, start) = vk_start();
        let mut p = vk_any(1).map_fatal_err(VkErr { fatal: true, id: 61 });
        let r = Parser::<VkInput, u8>::parse(&mut p, &mut input);
        vk_k!(start, input, r);
        let l = vk_log();
        assert!(l.n == 1 && input.pos == l.end[0]);
        match l.out[0] {
            OK => match &r { Ok(v) => assert!(*v == l.val[0]), Err(_) => assert!(false) },
            // "If the parser returns a soft error, the error is returned as-is."
            SOFT => match &r { Err(e) => assert!(!e.fatal && e.id == l.val[0]), Ok(_) => assert!(false) },
            // "If the parser returns a fatal error, it is replaced by the given error."
            _ => match &r { Err(e) => assert!(e.fatal && e.id == 61), Ok(_) => assert!(false) },
        }
        """, functions=["rusty_pc::map_fatal_err::MapFatalErrParser::parse"])
add("vk_c20_to_fatal", """
        vk_reset(7);
        let (mut input, start) = vk_start();
        let mut p = vk_any(1).to_fatal();
        let r = Parser::<VkInput, u8>::parse(&mut p, &mut input);
        let l = vk_log();
        assert!(l.n == 1 && input.pos == l.end[0]);
        match &r {
            Ok(v) => assert!(l.out[0] == OK && *v == l.val[0]),
            Err(e) => assert!(l.out[0] != OK && e.fatal && e.id == l.val[0]),
        }
        """, functions=["rusty_pc::to_fatal::ToFatalParser"])

# ------------------------------------------------------------------------------------------------ plumbing
add("vk_c20_flatten", """
        vk_reset(7);
        let (mut input, start) = vk_start();
        let mut p = VkOuter { inner: vk_any(1) }.flatten::<u8>();
        let r = Parser::<VkInput, u8>::parse(&mut p, &mut input);
        let l = vk_log();
        assert!(l.who[0] == 1 && l.at[0] == start);
        if l.out[0] != OK {
            assert!(l.n == 1 && vk_class!(r) == l.out[0]);
        } else {
            // the parser produced by the outer parser runs next, where the outer one ended; its result is the result
            assert!(l.n == 2 && l.who[1] == 100 && l.at[1] == l.end[0]);
            assert!(vk_class!(r) == l.out[1] && input.pos == l.end[1]);
            match &r { Ok(v) => assert!(*v == l.val[1]), Err(e) => assert!(e.id == l.val[1]) }
        }
        """, functions=["rusty_pc::flatten::FlattenParser::parse"])
add("vk_c20_lazy_boxed", """
        vk_reset(7);
        let (mut input, start) = vk_start();
        let mut p = lazy(|| vk_any(1));
        let r = Parser::<VkInput, u8>::parse(&mut p, &mut input);
        vk_k!(start, input, r);
        let l = vk_log();
        assert!(l.n == 1 && l.at[0] == start && input.pos == l.end[0] && vk_class!(r) == l.out[0]);
        match &r { Ok(v) => assert!(*v == l.val[0]), Err(e) => assert!(e.id == l.val[0]) }
        // a second parse reuses the parser built by the factory
        let r2 = Parser::<VkInput, u8>::parse(&mut p, &mut input);
        assert!(vk_log().n == 2 && vk_log().who[1] == 1);
        vk_reset(7);
        let (mut input, start) = vk_start();
        let mut q = Parser::<VkInput, u8>::boxed(vk_any(2));
        q.set_context(&9u8);
        let r = q.parse(&mut input);
        vk_k!(start, input, r);
        let l = vk_log();
        assert!(l.n == 1 && l.who[0] == 2 && l.ctx[0] == 9 && input.pos == l.end[0] && vk_class!(r) == l.out[0]);
        std::mem::forget(q);
        """, functions=["rusty_pc::lazy", "rusty_pc::boxed::BoxedParser"])
add("vk_c20_iif_ctx", """
        vk_reset(7);
        let (mut input, start) = vk_start();
        let which: bool = kani::any();
        let mut p = IifCtxParser::new::<VkInput>(VkAnyU(vk_any(1)), VkAnyU(vk_any(2)));
        p.set_context(&which);
        let r = p.parse(&mut input);
        vk_k!(start, input, r);
        let l = vk_log();
        // exactly one branch runs, chosen by the context
        assert!(l.n == 1 && l.who[0] == if which { 1 } else { 2 } && l.at[0] == start);
        assert!(vk_class!(r) == l.out[0] && input.pos == l.end[0]);
        match &r { Ok(v) => assert!(*v == l.val[0]), Err(e) => assert!(e.id == l.val[0]) }
        """, functions=["rusty_pc::IifCtxParser::parse"])
add("vk_c20_ctx_plumbing", """
        vk_reset(7);
        let (mut input, start) = vk_start();
        let c: u8 = kani::any();
        // ctx_parser returns the context it was given, consuming nothing
        let mut p = ctx_parser::<VkInput, u8, VkErr>();
        p.set_context(&c);
        match p.parse(&mut input) { Ok(v) => assert!(v == c && input.pos == start), Err(_) => assert!(false) }
        // map_ctx projects the outer context for the wrapped parser
        let mut q = Parser::<VkInput, u8>::map_ctx(vk_any(1), |outer: &bool| if *outer { 11u8 } else { 22u8 });
        let flag: bool = kani::any();
        q.set_context(&flag);
        let r = q.parse(&mut input);
        vk_k!(start, input, r);
        assert!(vk_log().n == 1 && vk_log().ctx[0] == if flag { 11 } else { 22 });
        // no_context stops the propagation
        vk_reset(7);
        let mut n = Parser::<VkInput, u8>::no_context::<bool>(vk_any(2));
        n.set_context(&true);
        let at = input.pos;
        let r = n.parse(&mut input);
        vk_k!(at, input, r);
        assert!(vk_log().n == 1 && vk_log().ctx[0] == 200);
        // suppliers neither consume nor fail / succeed otherwise than told
        let at = input.pos;
        let mut s = supplier::<VkInput, u8, _, u8, VkErr>(|| 5u8);
        match s.parse(&mut input) { Ok(v) => assert!(v == 5 && input.pos == at), Err(_) => assert!(false) }
        let fatal: bool = kani::any();
        let mut e = err_supplier::<VkInput, u8, _, u8, VkErr>(move || VkErr { fatal, id: 6 });
        match e.parse(&mut input) { Err(x) => assert!(x.fatal == fatal && x.id == 6 && input.pos == at), Ok(_) => assert!(false) }
        """, functions=["rusty_pc::ctx_parser", "rusty_pc::map_ctx::MapCtxParser", "rusty_pc::no_context::NoContextParser",
                        "rusty_pc::supplier", "rusty_pc::err_supplier"])

# ------------------------------------------------------------------------------------------------ primitives on symbolic text
add("vk_c20_read_peek_primitives", """
        let mut input = vk_bytes();
        let start = input.pos;
        let at_end = start >= input.len;
        let mut p = read_p::<VkText<u8>, VkErr>();
        match p.parse(&mut input) {
            Ok(v) => assert!(!at_end && v == input.data[start] && input.pos == start + 1),
            Err(e) => assert!(at_end && !e.fatal && input.pos == start),
        }
        input.pos = start;
        let mut q = peek_p::<VkText<u8>, VkErr>();
        match q.parse(&mut input) {
            Ok(v) => assert!(!at_end && v == input.data[start] && input.pos == start),
            Err(e) => assert!(at_end && !e.fatal && input.pos == start),
        }
        """, functions=["rusty_pc::read_p", "rusty_pc::peek_p"], unwind=2)
add("vk_c20_one_p_primitives", """
        let mut input = vk_bytes();
        let start = input.pos;
        let at_end = start >= input.len;
        let needle: u8 = kani::any();
        let mut p = one_p::<VkText<u8>, u8, VkErr>(needle);
        match p.parse(&mut input) {
            Ok(v) => assert!(!at_end && v == needle && input.data[start] == needle && input.pos == start + 1),
            Err(e) => assert!(!e.fatal && input.pos == start && (at_end || input.data[start] != needle)),
        }
        input.pos = start;
        let other: u8 = kani::any();
        let needles = [needle, other];
        let mut q = one_of_p::<VkText<u8>, u8, VkErr>(&needles);
        match q.parse(&mut input) {
            Ok(v) => assert!(!at_end && v == input.data[start] && (v == needle || v == other) && input.pos == start + 1),
            Err(e) => assert!(!e.fatal && input.pos == start && (at_end || (input.data[start] != needle && input.data[start] != other))),
        }
        """, functions=["rusty_pc::one_p", "rusty_pc::one_of_p", "rusty_pc::filter::FilterParser::parse"], unwind=4)
MANY_STR = """
        // characters over {a, b}; the run of 'a' from the current position is the result
        let sel: [bool; 6] = kani::any();
        let mut data = ['b'; 6];
        let mut k = 0usize;
        while k < 6 { if sel[k] { data[k] = 'a'; } k += 1; }
        let len: usize = kani::any();
        let start: usize = kani::any();
        kani::assume(len <= %(maxlen)d && start <= len);
        let mut input = VkText { data, len, pos: start };
        let mut run = 0usize;
        let mut k = start;
        let mut open = true;
        while k < %(maxlen)d { if open && k < len && data[k] == 'a' { run += 1; } else { open = false; } k += 1; }
"""
add("vk_c20_one_of_p_six_needles", """
        let mut input = vk_bytes();
        let start = input.pos;
        let at_end = start >= input.len;
        let needles: [u8; 6] = kani::any();                       // any six needles, in any order, duplicates allowed
        let mut member = false;
        let mut k = 0usize;
        while k < 6 { if !at_end && needles[k] == input.data[start] { member = true; } k += 1; }
        let mut q = one_of_p::<VkText<u8>, u8, VkErr>(&needles);
        match q.parse(&mut input) {
            Ok(v) => assert!(member && v == input.data[start] && input.pos == start + 1),
            Err(e) => assert!(!member && !e.fatal && input.pos == start),
        }
        """, functions=["rusty_pc::one_of_p"], unwind=8)
add("vk_c20_many_chars", MANY_STR % {"maxlen": 6} + """
        let mut p = crate::text::many_str_with_combiner::<VkText<char>, VkChars, VkErr, _, _>(|c: &char| *c == 'a', VkCharCombiner);
        match p.parse(&mut input) {
            Ok(s) => {
                assert!(run >= 1 && s.n == run && input.pos == start + run);          // exactly the maximal run
                let mut k = 0usize;
                while k < 6 { if k < run { assert!(s.v[k] == 'a'); } k += 1; }
            }
            Err(e) => assert!(run == 0 && !e.fatal && input.pos == start),
        }
        """, functions=["rusty_pc::text::many_str_with_combiner", "rusty_pc::many::ManyParser::parse", "rusty_pc::read_p"], unwind=9, cost=60)
add("vk_c20_many_str", MANY_STR % {"maxlen": 2} + """
        let mut p = crate::text::many_str::<VkText<char>, VkErr, _>(|c: &char| *c == 'a');
        match p.parse(&mut input) {
            Ok(s) => {
                assert!(run >= 1 && s.len() == run && input.pos == start + run);
                std::mem::forget(s);
            }
            Err(e) => assert!(run == 0 && !e.fatal && input.pos == start),
        }
        let mut one = crate::text::one_char_to_str::<VkText<char>, VkErr>('a');
        input.pos = start;
        match one.parse(&mut input) {
            Ok(s) => { assert!(run >= 1 && s.len() == 1 && input.pos == start + 1); std::mem::forget(s); }
            Err(e) => assert!(run == 0 && !e.fatal && input.pos == start),
        }
        """, functions=["rusty_pc::text::many_str", "rusty_pc::text::one_char_to_str", "rusty_pc::many::StringManyCombiner"], unwind=8,
    cost=120, core=False)

SLOW = {"vk_c20_seq5", "vk_c20_seq6", "vk_c20_many_str"}


def spec(tier, seed):
    b = Builder("C20")
    lib = b.file("rusty_pc/src/lib.rs", "rusty_pc", "")
    b.helper(lib, INFRA)
    for name, body, kw in H:
        unwind = kw.get("unwind", 3)
        b.add(lib, name, body, unwind=unwind, cost=kw.get("cost", 30), tier="quick", core=kw.get("core", True),
              bounds="sub-parsers: arbitrary behaviours satisfying K, at most %s calls, moves of 0..3 positions; start position 0..4"
                     % ("5" if "delimited" in name else "6" if "many" in name else "7")
              if "primitives" not in name and "many_str" not in name and "many_chars" not in name else "every input of length <= 6 (many_str: <= 2) and every position",
              functions=kw["functions"])
    return b.build(
        tier,
        bounds="<= 7 sub-parser calls per harness (repetition and delimited lists: <= 6, elements consume >= 1: the library's progress precondition); "
               "three alternatives for boxed choice; primitives on inputs of length <= 6",
        outside="the induction over parser-expression depth (pencil and paper); set_context plumbing beyond 'the context reaches the sub-parser'; "
                "and_then, and_then_err, flatten, then_with_in_context and seq* are documented as non-rewinding and are checked against that documentation",
        assumptions=["sub-parsers satisfy the contract K (that is the induction hypothesis)",
                     "repetition elements and delimiters consume at least one position when they succeed (documented progress precondition)"],
    )
