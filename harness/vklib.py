"""Helpers to describe harness instances for the vk driver.

A property module `harness/Cxx.py` exposes `spec(tier, seed) -> dict`:
  inject     {repo-relative file: rust text appended to a scratch copy of that file}
  harnesses  [dict(name, crate, file, module, path, bounds, functions, ...)]
  bounds, outside, stubs, assumptions   (free text copied into the evidence)

Every block is wrapped as

    #[cfg(kani)]
    mod <module> { use super::*; ... }

so it is a *child* of the file's module and sees its private items.  `cfg(kani)`
is only set by the Kani compiler: nothing of this ever reaches an ordinary build.
"""

COVER = 'kani::cover!(true, "vk_reached");'


def wrap(module, body, uses=""):
    return (
        "#[cfg(kani)]\n#[allow(unused, static_mut_refs, clippy::all)]\npub(crate) mod %s {\n    use super::*;\n%s\n%s\n    // vk-playback-slot:%s\n}\n"
        % (module, uses, body, module)
    )


class Builder:
    """Collects rust text per file and the harness instance list."""

    def __init__(self, pid):
        self.pid = pid
        self.module = "vk_" + pid.lower()
        self.files = {}      # rel -> {"crate":, "modpath":, "uses": str, "body": [str]}
        self.harnesses = []

    def file(self, rel, crate, modpath, uses=""):
        """rel: repo-relative source file; modpath: module path of that file inside its crate ('' for lib.rs)."""
        f = self.files.setdefault(rel, {"crate": crate, "modpath": modpath, "uses": "", "body": []})
        for line in uses.splitlines(True):
            if line not in f["uses"]:
                f["uses"] += line
        return rel

    def helper(self, rel, text):
        self.files[rel]["body"].append(text)

    def add(self, rel, name, body, *, bounds, functions, unwind=None, tier="quick", cost=10, finding=None,
            exhaustive=False, stubbing=False, stubs=(), timeout=None, mem_gb=None, core=True, basic=None,
            solver=None, attrs=()):
        """One #[kani::proof] function `name` with `body` (rust statements).  The body must end with its final
        assertion; the reachability witness is appended after it."""
        f = self.files[rel]
        a = ["    #[kani::proof]"]
        if unwind is not None:
            a.append("    #[kani::unwind(%d)]" % unwind)
        if solver:
            a.append("    #[kani::solver(%s)]" % solver)
        for s in stubs:
            a.append("    #[kani::stub(%s, %s)]" % s)
        for s in attrs:
            a.append("    " + s)
        text = "\n".join(a) + "\n    fn %s() {\n%s\n        %s\n    }\n" % (name, indent(body, 8), COVER)
        f["body"].append(text)
        modpath = (f["modpath"] + "::" if f["modpath"] else "") + self.module
        h = {"name": name, "crate": f["crate"], "file": rel, "module": self.module, "path": modpath + "::" + name,
             "bounds": bounds, "functions": list(functions), "tier": tier, "cost": cost, "exhaustive": exhaustive,
             "stubbing": bool(stubbing or stubs), "core": core}
        h["solver"] = solver or "cadical"
        if finding:
            h["finding"] = finding
        if timeout:
            h["timeout"] = timeout
        if mem_gb:
            h["mem_gb"] = mem_gb
        if basic:
            h["basic"] = basic
        self.harnesses.append(h)
        return h

    def build(self, tier, **extra):
        inject = {rel: wrap(self.module, "\n".join(f["body"]), f["uses"]) for rel, f in self.files.items()}
        hs = [h for h in self.harnesses if tier == "thorough" or h["tier"] == "quick"]
        d = {"inject": inject, "harnesses": hs}
        d.update(extra)
        return d


def indent(text, n):
    pad = " " * n
    return "\n".join((pad + l if l.strip() else l) for l in text.strip("\n").splitlines())
