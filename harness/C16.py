"""C16 - PRINT column rules: the device (WritePrinter) and the per-statement state machine (PrintState) (DESIGN 4/C16)."""
from vklib import Builder

SINK = """
    /// recording sink standing in for the console / printer / file behind WritePrinter
    pub struct VkSink { pub buf: [u8; 64], pub n: usize }
    impl VkSink { pub fn new() -> Self { Self { buf: [0; 64], n: 0 } } }
    impl Write for VkSink {
        fn write(&mut self, bytes: &[u8]) -> std::io::Result<usize> {
            let mut k = 0usize;
            while k < bytes.len() {
                if self.n < 64 { self.buf[self.n] = bytes[k]; }
                self.n += 1;
                k += 1;
            }
            Ok(bytes.len())
        }
        fn flush(&mut self) -> std::io::Result<()> { Ok(()) }
    }
    /// reference column: bytes since the last CR or LF written
    pub fn vk_column(s: &VkSink) -> usize {
        let mut col = 0usize;
        let mut k = 0usize;
        while k < s.n && k < 64 {
            if s.buf[k] == b'\\r' || s.buf[k] == b'\\n' { col = 0; } else { col += 1; }
            k += 1;
        }
        col
    }
    macro_rules! vk_text {
        ($name:ident, $bytes:ident, $n:expr) => {
            let vk_sel: [u8; $n] = kani::any();
            let mut $bytes: [u8; $n] = [0; $n];
            let mut vk_k = 0usize;
            while vk_k < $n {
                kani::assume(vk_sel[vk_k] < 3);
                $bytes[vk_k] = match vk_sel[vk_k] { 0 => b'x', 1 => b'\\r', _ => b'\\n' };
                vk_k += 1;
            }
            let $name: &str = unsafe { std::str::from_utf8_unchecked(&$bytes) };
        };
    }
    macro_rules! vk_ok {
        ($e:expr) => { match $e { Ok(v) => v, Err(e) => { std::mem::forget(e); assert!(false); return; } } };
    }
"""


def spec(tier, seed):
    b = Builder("C16")
    wp = b.file("rusty_basic/src/interpreter/write_printer.rs", "rusty_basic", "interpreter::write_printer")
    b.helper(wp, SINK)
    for n in (1, 2, 3):
        b.add(wp, "vk_c16_print_text_len%d" % n, """
        vk_text!(s, bytes, %(n)d);
        let mut p = WritePrinter::new(VkSink::new());
        vk_ok!(p.print(s));
        // every CR and every LF of the text ends a line on the device; everything else is copied verbatim
        let mut want: [u8; 64] = [0; 64];
        let mut w = 0usize;
        let mut k = 0usize;
        while k < %(n)d {
            if bytes[k] == b'\\r' || bytes[k] == b'\\n' { want[w] = b'\\r'; want[w + 1] = b'\\n'; w += 2; } else { want[w] = bytes[k]; w += 1; }
            k += 1;
        }
        assert!(p.writer.n == w);
        let mut k = 0usize;
        while k < 2 * %(n)d { if k < w { assert!(p.writer.buf[k] == want[k]); } k += 1; }
        // the column restarts after a CR or LF inside a string
        assert!(p.last_column == vk_column(&p.writer));
        // a statement that ended in a separator left the device here; println restarts the column
        vk_ok!(p.println());
        assert!(p.last_column == 0 && vk_column(&p.writer) == 0);
        """ % {"n": n}, unwind=2 * n + 6, tier="quick" if n <= 2 else "thorough", cost=30 * n * n,
              bounds="every text of exactly %d bytes over {x, CR, LF}" % n,
              functions=["rusty_basic::interpreter::write_printer::WritePrinter::print", "rusty_basic::interpreter::write_printer::WritePrinter::print_as_is",
                         "rusty_basic::interpreter::write_printer::WritePrinter::println",
                         "rusty_basic::interpreter::write_printer::WritePrinter::move_to_next_print_zone"])
    cols = [0, 1, 12, 13, 14, 15, 27, 28] if tier == "quick" else list(range(0, 43))
    for c in range(0, 113):
        quick = c in (0, 1, 12, 13, 14, 15, 27, 28, 69, 70, 79, 80, 83, 97)
        b.add(wp, "vk_c16_zone_from_col%d" % c, """
        let mut p = WritePrinter::new(VkSink::new());
        p.last_column = %(c)d;                      // the device is at this column (state constructed directly)
        let written = vk_ok!(p.move_to_next_print_zone());
        let want = 14 - %(c)d %% 14;
        assert!(written == want);
        assert!(p.writer.n == want);
        let mut k = 0usize;
        while k < 14 { if k < want { assert!(p.writer.buf[k] == b' '); } k += 1; }
        assert!(p.last_column == %(c)d + want && p.last_column %% 14 == 0);
        """ % {"c": c}, unwind=18, tier="quick" if quick else "thorough", cost=5,
              bounds="starting column %d" % c,
              functions=["rusty_basic::interpreter::write_printer::WritePrinter::move_to_next_print_zone"])
    b.add(wp, "vk_c16_zone_from_any_column", """
        let mut p = WritePrinter::new(VkSink::new());
        let c: usize = kani::any();
        kani::assume(c < 1000);                      // the device is at any column (long lines are not wrapped)
        p.last_column = c;
        let written = vk_ok!(p.move_to_next_print_zone());
        let want = 14 - c % 14;
        assert!(written == want && p.writer.n == want);
        let mut k = 0usize;
        while k < 14 { if k < want { assert!(p.writer.buf[k] == b' '); } k += 1; }
        assert!(p.last_column == c + want && p.last_column % 14 == 0);
        """, unwind=18, cost=200, core=False, tier="thorough", bounds="any starting column 0..999",
          functions=["rusty_basic::interpreter::write_printer::WritePrinter::move_to_next_print_zone",
                     "rusty_basic::interpreter::write_printer::WritePrinter::print"])
    b.add(wp, "vk_c16_column_after_text_at_any_column", """
        // text printed at any column advances the column by its length (no wrap-around), a line break restarts it
        let mut p = WritePrinter::new(VkSink::new());
        let c: usize = kani::any();
        kani::assume(c < 100000);
        p.last_column = c;
        vk_ok!(p.print("xy"));
        assert!(p.last_column == c + 2);
        vk_ok!(p.print("a\\rb"));
        assert!(p.last_column == 1);
        """, unwind=8, cost=60, bounds="any starting column 0..99999",
          functions=["rusty_basic::interpreter::write_printer::WritePrinter::print", "rusty_basic::interpreter::write_printer::WritePrinter::print_as_is"])
    b.add(wp, "vk_c16_two_devices", """
        // two devices driven alternately keep two independent columns
        let mut a = WritePrinter::new(VkSink::new());
        let mut c = WritePrinter::new(VkSink::new());
        vk_text!(s1, b1, 1);
        vk_ok!(a.print(s1));
        let col_a = a.last_column;
        vk_text!(s2, b2, 1);
        vk_ok!(c.print(s2));
        assert!(a.last_column == col_a);
        assert!(c.last_column == vk_column(&c.writer));
        assert!(a.last_column == vk_column(&a.writer));
        """, unwind=8, cost=60, bounds="two devices, every pair of 1-byte texts over {x, CR, LF}",
          functions=["rusty_basic::interpreter::write_printer::WritePrinter::print"])

    ps = b.file("rusty_basic/src/interpreter/print.rs", "rusty_basic", "interpreter::print")
    for n in (1, 2, 3, 4):
        b.add(ps, "vk_c16_print_state_history%d" % n, """
        // items of a PRINT statement: 0 = a value, 1 = semicolon, 2 = comma; then the end of the statement
        let mut st = PrintState::new();
        st.set_printer_type(PrinterType::Print);
        let items: [u8; %(n)d] = kani::any();
        let mut k = 0usize;
        while k < %(n)d {
            kani::assume(items[k] < 3);
            match items[k] {
                0 => match st.print_value_from_a(Variant::VInteger(1)) {
                    Ok((None, Some(v))) => std::mem::forget(v),       // no format string: the value is passed on unchanged
                    other => { std::mem::forget(other); assert!(false); }
                },
                1 => st.print_semicolon(),
                _ => st.on_print_comma(),
            }
            k += 1;
        }
        match st.print_end() {
            // the line ends with CR LF unless the statement ends in a separator
            Ok((None, newline)) => assert!(newline == (items[%(n)d - 1] == 0)),
            other => { std::mem::forget(other); assert!(false); }
        }
        // the next statement starts afresh
        match st.print_end() {
            Ok((None, newline)) => assert!(newline),
            other => { std::mem::forget(other); assert!(false); }
        }
        std::mem::forget(st);
        """ % {"n": n}, unwind=n + 2, tier="quick" if n <= 3 else "thorough", cost=10 * n,
              bounds="every PRINT statement of exactly %d items over {value, semicolon, comma}" % n,
              functions=["rusty_basic::interpreter::print::PrintState::print_value_from_a", "rusty_basic::interpreter::print::PrintState::print_semicolon",
                         "rusty_basic::interpreter::print::PrintState::on_print_comma", "rusty_basic::interpreter::print::PrintState::print_end",
                         "rusty_basic::interpreter::print::PrintState::set_printer_type"])
    b.add(ps, "vk_c16_print_state_empty", """
        let mut st = PrintState::new();
        st.set_printer_type(PrinterType::LPrint);
        match st.print_end() {
            Ok((None, newline)) => assert!(newline),          // a bare PRINT ends the line
            other => { std::mem::forget(other); assert!(false); }
        }
        std::mem::forget(st);
        """, unwind=2, cost=5, bounds="the empty PRINT statement", functions=["rusty_basic::interpreter::print::PrintState::print_end"])
    return b.build(
        tier,
        bounds="texts of 1..2 bytes over {x, CR, LF} (quick) / ..3 (thorough); zone padding from columns 0,1,12,13,14,15,27,28 (quick) / 0..42; "
               "PRINT statements of 0..3 items (quick) / ..4",
        outside="the rendering of numbers (format!), PRINT USING fields, per-file devices (file handle table), the lowering of PRINT to instructions, "
                "the screen device (crossterm)",
        assumptions=["the sink accepts every write (no I/O errors)"],
    )
