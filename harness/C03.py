"""C03 - calls: fresh locals, STATIC state - the activation-stack kernel of `Context` (DESIGN 4/C03).

`Context` keeps the activation stack (`states`), the variable storage (`memory_blocks`, reference counted) and the
name -> block index map of STATIC subprograms.  The real struct cannot be put in front of CBMC (hash maps, and the drop
glue of `Variables` -> `Variant`), so the *text* of the stack-discipline methods, of `State` and of `MemoryBlock` is cut out
of /repo's current context.rs (harness/slicer.py) and compiled, unchanged, against stand-ins for what the stack discipline
does not look into: `Variables` and `Arguments` become identity tokens, `HashMap` an association list, `ScopeName` a byte.
"""
from vklib import Builder
import slicer

CTX = "rusty_basic/src/interpreter/context.rs"

STACK_FNS = ["new", "begin_collecting_arguments", "stop_collecting_arguments", "stop_collecting_arguments_static", "pop",
             "push_error_handler_context", "global_variables", "variables", "variables_mut", "caller_variables",
             "caller_variables_memory_block_index", "arguments_mut", "drop_arguments_for_array_allocation", "state", "state_mut",
             "current_memory_block_index", "do_push_new", "do_push_existing", "do_push_state", "do_pop", "increase_ref_count",
             "decrease_ref_count"]

ENV = """
    // ---- stand-ins (the stack discipline never looks inside them) ----
    /// the arguments collected for one call: an identity token
    #[derive(Debug, Default)]
    pub struct Arguments { pub id: u32 }
    /// one variable table: the identity of the call that created it, and how often a STATIC subprogram re-entered it
    #[derive(Debug)]
    pub struct Variables { pub id: u32, pub applied: u32 }
    impl Variables {
        pub fn new() -> Self { Variables { id: 0, applied: 0 } }
        pub fn apply_arguments(&mut self, _arguments: Arguments) { self.applied += 1; }
    }
    impl From<Arguments> for Variables { fn from(a: Arguments) -> Self { Variables { id: a.id, applied: 0 } } }
    pub type ScopeName = u8;
    /// `Vec` with the part of its interface `Context` uses, backed by an array of 5 slots (the heap vectors of std made the
    /// encoding of a 4-step history run out of memory at 30 GB); shadows the prelude's Vec inside this module
    #[derive(Debug)]
    pub struct Vec<T> { pub slots: [Option<T>; 5], pub n: usize }
    impl<T> Vec<T> {
        pub fn new() -> Self { Vec { slots: [const { None }; 5], n: 0 } }
        pub fn len(&self) -> usize { self.n }
        pub fn is_empty(&self) -> bool { self.n == 0 }
        pub fn push(&mut self, v: T) { assert!(self.n < 5); self.slots[self.n] = Some(v); self.n += 1; }
        pub fn pop(&mut self) -> Option<T> { if self.n == 0 { None } else { self.n -= 1; self.slots[self.n].take() } }
        pub fn get(&self, i: usize) -> Option<&T> { if i < self.n { self.slots[i].as_ref() } else { None } }
        pub fn get_mut(&mut self, i: usize) -> Option<&mut T> { if i < self.n { self.slots[i].as_mut() } else { None } }
        pub fn first(&self) -> Option<&T> { self.get(0) }
        pub fn first_mut(&mut self) -> Option<&mut T> { self.get_mut(0) }
        pub fn last(&self) -> Option<&T> { if self.n == 0 { None } else { self.slots[self.n - 1].as_ref() } }
        pub fn last_mut(&mut self) -> Option<&mut T> { if self.n == 0 { None } else { self.slots[self.n - 1].as_mut() } }
        /// removes element i and shifts the later ones down, like std's Vec::remove (panics when out of range)
        pub fn remove(&mut self, i: usize) -> T {
            assert!(i < self.n);
            let v = self.slots[i].take();
            let mut j = i;
            while j + 1 < self.n { self.slots[j] = self.slots[j + 1].take(); j += 1; }
            self.n -= 1;
            v.unwrap()
        }
        /// removes element i and puts the last one in its place, like std's Vec::swap_remove
        pub fn swap_remove(&mut self, i: usize) -> T {
            assert!(i < self.n);
            let v = self.slots[i].take();
            if i + 1 < self.n { self.slots[i] = self.slots[self.n - 1].take(); }
            self.n -= 1;
            v.unwrap()
        }
        pub fn insert(&mut self, i: usize, v: T) {
            assert!(i <= self.n && self.n < 5);
            let mut j = self.n;
            while j > i { self.slots[j] = self.slots[j - 1].take(); j -= 1; }
            self.slots[i] = Some(v);
            self.n += 1;
        }
        pub fn truncate(&mut self, len: usize) { while self.n > len { self.n -= 1; self.slots[self.n] = None; } }
        pub fn clear(&mut self) { self.truncate(0); }
        pub fn iter(&self) -> impl Iterator<Item = &T> { self.slots.iter().filter_map(|s| s.as_ref()) }
        pub fn iter_mut(&mut self) -> impl Iterator<Item = &mut T> { self.slots.iter_mut().filter_map(|s| s.as_mut()) }
    }
    impl<T> std::ops::Index<usize> for Vec<T> {
        type Output = T;
        fn index(&self, i: usize) -> &T { assert!(i < self.n); self.slots[i].as_ref().unwrap() }      // out of range panics, as in std
    }
    impl<T> std::ops::IndexMut<usize> for Vec<T> {
        fn index_mut(&mut self, i: usize) -> &mut T { assert!(i < self.n); self.slots[i].as_mut().unwrap() }
    }
    macro_rules! vec {
        () => { Vec::new() };
        ($($x:expr),+ $(,)?) => {{ let mut v = Vec::new(); $(v.push($x);)+ v }};
    }
    /// a map of at most two entries with the part of the HashMap interface `Context` uses
    #[derive(Debug)]
    pub struct HashMap<K, V> { pub items: [Option<(K, V)>; 2] }
    impl<K: PartialEq, V> HashMap<K, V> {
        pub fn new() -> Self { HashMap { items: [None, None] } }
        pub fn get(&self, k: &K) -> Option<&V> {
            if let Some((k0, v0)) = &self.items[0] { if *k0 == *k { return Some(v0); } }
            if let Some((k1, v1)) = &self.items[1] { if *k1 == *k { return Some(v1); } }
            None
        }
        pub fn insert(&mut self, k: K, v: V) -> Option<V> {
            if let Some((k0, v0)) = &mut self.items[0] { if *k0 == k { return Some(std::mem::replace(v0, v)); } }
            if let Some((k1, v1)) = &mut self.items[1] { if *k1 == k { return Some(std::mem::replace(v1, v)); } }
            if self.items[0].is_none() { self.items[0] = Some((k, v)); } else { assert!(self.items[1].is_none()); self.items[1] = Some((k, v)); }
            None
        }
        pub fn values_mut(&mut self) -> impl Iterator<Item = &mut V> { self.items.iter_mut().filter_map(|kv| kv.as_mut().map(|kv| &mut kv.1)) }
    }
"""


def sliced():
    src = slicer.read(CTX)
    _, ctx_impl = slicer.block(src, r"impl\s+Context\b")
    parts = [
        "    // ---- text of /repo's context.rs, unchanged ----",
        "    #[derive(Debug)]\n    pub " + slicer.item_text(src, r"struct\s+Context\b"),
        # the listed methods plus every private helper of the impl block they call (a refactoring may introduce one)
        "    impl Context {\n" + slicer.functions_text(ctx_impl, slicer.closure(ctx_impl, [f for f in STACK_FNS if f in slicer.fn_names(ctx_impl)])) + "\n    }",
        "    #[derive(Debug)]\n    " + slicer.item_text(src, r"struct\s+State\b"),
        "    " + slicer.item_text(src, r"impl\s+State\b"),
        "    #[derive(Debug)]\n    pub " + slicer.item_text(src, r"struct\s+MemoryBlock\b"),
        "    " + slicer.item_text(src, r"impl\s+MemoryBlock\b"),
    ]
    return "\n\n".join(parts)


# ---- one step from an arbitrary valid state (inductive formulation) ----
IND = """
    pub const VK_MAXB: usize = 4;      // blocks in the pre-state
    pub const VK_MAXS: usize = 4;      // activation states in the pre-state

    /// what the harness remembers of the pre-state
    pub struct VkPre {
        pub nb: usize, pub ns: usize,
        pub block_id: [u32; 5], pub block_static: [bool; 5],
        pub state_block: [usize; 5], pub state_args: [bool; 5],
        pub has_name: [bool; 2], pub name_block: [usize; 2],
    }

    /// an arbitrary Context that satisfies the representation invariant
    pub fn vk_any_context() -> (Context, VkPre) {
        let nb: usize = kani::any();
        let ns: usize = kani::any();
        kani::assume(nb >= 1 && nb <= VK_MAXB && ns >= 1 && ns <= VK_MAXS);
        let mut p = VkPre { nb, ns, block_id: [0; 5], block_static: [false; 5], state_block: [0; 5], state_args: [false; 5],
                            has_name: [false; 2], name_block: [0; 2] };
        let mut blocks: Vec<MemoryBlock> = Vec::new();
        let mut k = 0usize;
        while k < VK_MAXB {
            if k < nb {
                let id: u32 = kani::any();
                let rc: usize = kani::any();
                let st: bool = kani::any();
                let applied: u32 = kani::any();
                kani::assume(rc >= 1 && rc <= 5 && applied < 1000);
                if k == 0 { kani::assume(id == 0 && !st); } else { kani::assume(id >= 1 && id < 1000); }
                // identities are distinct
                let mut m = 0usize;
                while m < k { kani::assume(p.block_id[m] != id); m += 1; }
                p.block_id[k] = id; p.block_static[k] = st;
                blocks.push(MemoryBlock { variables: Variables { id, applied }, ref_count: rc, is_static: st });
            }
            k += 1;
        }
        let mut states: Vec<State> = Vec::new();
        let mut k = 0usize;
        while k < VK_MAXS {
            if k < ns {
                let b: usize = kani::any();
                let a: bool = kani::any();
                kani::assume(b < nb);
                if k == 0 { kani::assume(b == 0 && !a); }                       // the main module
                p.state_block[k] = b; p.state_args[k] = a;
                let aid: u32 = kani::any();
                kani::assume(aid >= 1000);                                       // identity of a pending argument list: fresh
                states.push(State { memory_block_index: b, arguments: if a { Some(Arguments { id: aid }) } else { None } });
            }
            k += 1;
        }
        let mut map: HashMap<ScopeName, usize> = HashMap::new();
        let mut n = 0usize;
        while n < 2 {
            let has: bool = kani::any();
            let b: usize = kani::any();
            if has {
                kani::assume(b < nb && p.block_static[b]);
                if n == 1 && p.has_name[0] { kani::assume(p.name_block[0] != b); }
                p.has_name[n] = true; p.name_block[n] = b;
                map.insert(n as u8, b);
            }
            n += 1;
        }
        let c = Context { states, memory_blocks: blocks, static_memory_blocks: map };
        kani::assume(vk_invariant(&c));
        (c, p)
    }

    /// the representation invariant of Context (what every reachable state satisfies)
    pub fn vk_invariant(c: &Context) -> bool {
        let nb = c.memory_blocks.len();
        let ns = c.states.len();
        if nb < 1 || ns < 1 || nb > 5 || ns > 5 { return false; }
        if c.states[0].memory_block_index != 0 || c.states[0].arguments.is_some() { return false; }
        if c.memory_blocks[0].is_static { return false; }
        let mut ok = true;
        // every state refers to an existing block; an argument list is evaluated in the block of the state below it
        let mut j = 0usize;
        while j < 5 {
            if j < ns {
                let b = c.states[j].memory_block_index;
                if b >= nb { return false; }
                if j > 0 && c.states[j].arguments.is_some() && c.states[j - 1].memory_block_index != b { ok = false; }
                // a local (non-static, non-global) block lies above every block the states below it refer to
                if b != 0 && !c.memory_blocks[b].is_static {
                    let mut i = 0usize;
                    while i < j { if c.states[i].memory_block_index > b { ok = false; } i += 1; }
                }
            }
            j += 1;
        }
        // reference counts: a local block is counted exactly and lives only while referenced; a STATIC block keeps one
        // extra count once its first activation has ended
        let mut k = 0usize;
        while k < 5 {
            if k < nb {
                let mut refs = 0usize;
                let mut j = 0usize;
                while j < 5 { if j < ns && c.states[j].memory_block_index == k { refs += 1; } j += 1; }
                let rc = c.memory_blocks[k].ref_count;
                if c.memory_blocks[k].is_static {
                    if !(rc >= 1 && (rc == refs || rc == refs + 1)) { ok = false; }
                } else if !(rc == refs && refs >= 1) { ok = false; }
            }
            k += 1;
        }
        // the STATIC name map points at STATIC blocks, one per name, and every STATIC block has a name
        let mut named = 0usize;
        let mut n = 0u8;
        while n < 2 {
            if let Some(b) = c.static_memory_blocks.get(&n) {
                if *b >= nb || !c.memory_blocks[*b].is_static { return false; }
                named += 1;
            }
            n += 1;
        }
        if let (Some(a), Some(b)) = (c.static_memory_blocks.get(&0), c.static_memory_blocks.get(&1)) { if *a == *b { ok = false; } }
        let mut statics = 0usize;
        let mut k = 0usize;
        while k < 5 { if k < nb && c.memory_blocks[k].is_static { statics += 1; } k += 1; }
        if statics != named { ok = false; }
        ok
    }

    /// frame condition: every activation that is still there sees the variables it saw before, and every STATIC
    /// subprogram still owns the variables it owned before
    pub fn vk_frame(c: &Context, p: &VkPre, kept_states: usize) {
        let mut j = 0usize;
        while j < 5 {
            if j < kept_states {
                let b = c.states[j].memory_block_index;
                assert!(c.memory_blocks[b].variables.id == p.block_id[p.state_block[j]]);
                assert!(c.states[j].arguments.is_some() == p.state_args[j]);
            }
            j += 1;
        }
        let mut n = 0usize;
        while n < 2 {
            if p.has_name[n] {
                match c.static_memory_blocks.get(&(n as u8)) {
                    Some(b) => assert!(c.memory_blocks[*b].variables.id == p.block_id[p.name_block[n]]),
                    None => assert!(false),
                }
            }
            n += 1;
        }
    }
"""

FUNCS = ["rusty_basic::interpreter::context::Context::{%s} (text, sliced)" % ", ".join(STACK_FNS),
         "rusty_basic::interpreter::context::{State, MemoryBlock} (text, sliced)"]


STEP_PRE = """
        let (mut c, p) = vk_any_context();
        let top_has_args = p.state_args[p.ns - 1];
"""
STEP_POST = """
        std::mem::forget(c);
"""

STEPS = {
    "new": ("""
        let c = Context::new();
        assert!(vk_invariant(&c));
        assert!(c.variables().id == 0 && c.states.len() == 1 && c.memory_blocks.len() == 1);
        """, "the initial Context"),
    "begin_collecting_arguments": (STEP_PRE + """
        c.begin_collecting_arguments();
        assert!(vk_invariant(&c));
        assert!(c.states.len() == p.ns + 1 && c.memory_blocks.len() == p.nb);
        vk_frame(&c, &p, p.ns);
        // the argument list is evaluated with the caller's variables
        assert!(c.states[p.ns].arguments.is_some());
        assert!(c.states[p.ns].memory_block_index == c.states[p.ns - 1].memory_block_index);
        """, "any valid state"),
    "stop_collecting_arguments": (STEP_PRE + """
        kani::assume(top_has_args);
        let aid = c.states[p.ns - 1].arguments.as_ref().unwrap().id;
        c.stop_collecting_arguments();
        assert!(vk_invariant(&c));
        assert!(c.states.len() == p.ns && c.memory_blocks.len() == p.nb + 1);
        vk_frame(&c, &p, p.ns - 1);
        // the callee runs on fresh variables (those built from its argument list), in a block of its own
        assert!(c.states[p.ns - 1].arguments.is_none());
        assert!(c.variables().id == aid);
        assert!(!c.memory_blocks[c.states[p.ns - 1].memory_block_index].is_static);
        """, "any valid state whose top is a pending argument list"),
    "stop_collecting_arguments_static": (STEP_PRE + """
        kani::assume(top_has_args);
        let name: u8 = kani::any();
        kani::assume(name < 2);
        let aid = c.states[p.ns - 1].arguments.as_ref().unwrap().id;
        let had = p.has_name[name as usize];
        let applied_before = if had { c.memory_blocks[p.name_block[name as usize]].variables.applied } else { 0 };
        c.stop_collecting_arguments_static(name);
        assert!(vk_invariant(&c));
        assert!(c.states.len() == p.ns);
        vk_frame(&c, &p, p.ns - 1);
        assert!(c.states[p.ns - 1].arguments.is_none());
        let b = c.states[p.ns - 1].memory_block_index;
        assert!(c.memory_blocks[b].is_static);
        if had {
            // a STATIC subprogram re-enters the variables it had, wherever it is called from
            assert!(c.variables().id == p.block_id[p.name_block[name as usize]]);
            assert!(c.variables().applied == applied_before + 1);
            assert!(c.memory_blocks.len() == p.nb);
        } else {
            assert!(c.variables().id == aid);
            assert!(c.memory_blocks.len() == p.nb + 1);
        }
        match c.static_memory_blocks.get(&name) { Some(i) => assert!(*i == b), None => assert!(false) }
        """, "any valid state whose top is a pending argument list; either STATIC name, known or new"),
    "pop": (STEP_PRE + """
        kani::assume(p.ns >= 2 && !top_has_args);
        c.pop();
        assert!(vk_invariant(&c));
        assert!(c.states.len() == p.ns - 1);
        // returning changes nothing for the activations below and for the STATIC subprograms
        vk_frame(&c, &p, p.ns - 1);
        """, "any valid state with an activation on top"),
    "push_error_handler_context": (STEP_PRE + """
        let mut keep = p.ns;
        while keep > 1 && p.state_args[keep - 1] { keep -= 1; }
        c.push_error_handler_context();
        assert!(vk_invariant(&c));
        // pending argument lists are dropped; the handler runs on the main module's variables
        assert!(c.states.len() == keep + 1 && c.memory_blocks.len() == p.nb);
        vk_frame(&c, &p, keep);
        assert!(c.states[keep].arguments.is_none() && c.states[keep].memory_block_index == 0);
        assert!(c.variables().id == 0);
        """, "any valid state"),
    "drop_arguments_for_array_allocation": (STEP_PRE + """
        kani::assume(top_has_args);
        let aid = c.states[p.ns - 1].arguments.as_ref().unwrap().id;
        let a = c.drop_arguments_for_array_allocation();
        assert!(a.id == aid);
        assert!(vk_invariant(&c));
        assert!(c.states.len() == p.ns - 1 && c.memory_blocks.len() == p.nb);
        vk_frame(&c, &p, p.ns - 1);
        """, "any valid state whose top is a pending argument list"),
}


def spec(tier, seed):
    b = Builder("C03")
    ctx = b.file(CTX, "rusty_basic", "interpreter::context")
    try:
        text = sliced()
        b.helper(ctx, ENV)
        b.helper(ctx, text)
        b.helper(ctx, IND)
        slice_error = None
    except slicer.SliceError as e:
        slice_error = str(e)
    if slice_error is None:
        for op, (body, pre) in STEPS.items():
            b.add(ctx, "vk_c03_step_" + op, body + (STEP_POST if op != "new" else "        std::mem::forget(c);\n"),
                  unwind=7, tier="quick", cost=100, timeout=1500, mem_gb=12,
                  # the handler push unrolls `while top is an argument list { do_pop }` to the unwinding bound: 300 s / < 8 GB on an idle
                  # machine, out of memory at 12 GB on a loaded one - listed as undecided then, not a core instance
                  core=(op != "push_error_handler_context"),
                  bounds="one %s from %s: up to 4 variable blocks and 4 activation states, any reference counts, any assignment of "
                         "states to blocks, up to two STATIC subprograms, constrained only by the representation invariant (an inductive step: "
                         "covers call histories of any length)" % (op, pre),
                  functions=FUNCS,
                  basic="DECLARE SUB A ()\nDECLARE SUB S ()\nA\nS\nSUB A\n  S\nEND SUB\nSUB S STATIC\n  X = X + 1\n  PRINT X\nEND SUB")
    return b.build(
        tier,
        bounds="one operation of the activation stack from an arbitrary state satisfying the representation invariant (<= 4 blocks, <= 4 states, "
               "<= 2 STATIC names before the step); the invariant is re-established by every operation and holds for Context::new()",
        outside="by-reference write-back, function results, parameter conversion, SHARED/CONST resolution, what the variable tables contain "
                "(Variables, Arguments, Vec and the hash map are stand-ins); that the generator emits the call protocol the steps model; "
                "states deeper than the bound",
        stubs=["Variables / Arguments -> identity tokens; std Vec -> array-backed vector of 5 slots with the same push/pop/remove/index semantics; "
               "std HashMap -> association list; ScopeName -> u8 (the sliced text of Context, State and MemoryBlock is compiled against them unchanged)"],
        assumptions=["pre-states satisfy the representation invariant vk_invariant (reference counts, block order, STATIC name map); "
                     "PushStack/PushStaticStack only on a pending argument list, PopStack only on an activation"],
        notes=[("Context could not be sliced from the current tree: " + slice_error)] if slice_error else [],
    )
