"""C17 - string functions satisfy their defining equations: MID$, INSTR, VAL kernels (DESIGN 4/C17)."""
from vklib import Builder
import strkernels as sk
import bifn
import slicer


def spec(tier, seed):
    b = Builder("C17")
    mid = b.file(sk.MID_FILE, "rusty_basic", "interpreter::built_ins::mid_fn")
    b.helper(mid, sk.ASCII_TEXT)
    for n in (0, 1, 2, 3, 4):
        sk.mid_equation(b, mid, "vk_c17", n, "quick" if n <= 3 else "thorough", full_range=True)
    sk.mid_long(b, mid, "vk_c17", 300, "quick")
    sk.mid_long(b, mid, "vk_c17", 70000, "thorough", core=False)
    ins = b.file(sk.INSTR_FILE, "rusty_basic", "interpreter::built_ins::instr")
    b.helper(ins, sk.ASCII_TEXT)
    for h in (1, 2, 3, 4):
        for m in (1, 2):
            sk.instr_equation(b, ins, "vk_c17", h, m, "quick" if h <= 3 else "thorough")
    # needles of three letters (a search that skips ahead after a partial match goes wrong from there on)
    sk.instr_equation(b, ins, "vk_c17", 4, 3, "quick")
    sk.instr_equation(b, ins, "vk_c17", 5, 3, "thorough")
    sk.instr_equation(b, ins, "vk_c17", 6, 4, "thorough")
    val = b.file(sk.VAL_FILE, "rusty_basic", "interpreter::built_ins::val")
    b.helper(val, sk.POWI10)
    # the type boundaries of VAL sit at 5 digits (32767 / 32768) and 10 digits (2147483647 / 2147483648)
    for d in (1, 2, 3, 4, 5, 6, 7):
        sk.val_equation(b, val, "vk_c17", d, False, "quick" if d in (1, 3, 5) else "thorough", core=d <= 5)
    for d in (1, 2, 5):
        sk.val_equation(b, val, "vk_c17", d, True, "quick" if d in (2, 5) else "thorough", core=d <= 5)
    sk.val_boundary(b, val, "vk_c17")      # 9 and more fully symbolic digits: no verdict in 1200 s
    # LEFT$, RIGHT$, UCASE$, LCASE$, LTRIM$, RTRIM$, SPACE$, STRING$: the body of run() sliced from the current source
    try:
        bifn.left_right(b, "vk_c17", 1, (0, 1, 2), "quick")
        bifn.left_right(b, "vk_c17", 2, (0, 1, 2, 3), "quick")
        bifn.left_right(b, "vk_c17", 3, (0, 1, 2, 3, 4, 32767), "quick")
        bifn.left_right(b, "vk_c17", 4, (0, 1, 3, 4, 5), "thorough")
        bifn.left_right(b, "vk_c17", 5, (2, 5, 6), "thorough")
        bifn.left_right_negative(b, "vk_c17", "quick")
        for n in (0, 1, 2, 3, 4, 5):
            bifn.case_fns(b, "vk_c17", n, "quick" if n in (1, 3) else "thorough")
            bifn.trim_fns(b, "vk_c17", n, "quick" if n in (1, 3, 4) else "thorough")
        for n in (1, 2, 3):
            bifn.trim_fns(b, "vk_c17", n, "quick" if n == 2 else "thorough", blanks_only=False)
        bifn.space_string(b, "vk_c17", "quick")
        notes = []
    except slicer.SliceError as e:
        notes = ["built-in bodies could not be sliced from the current tree (%s): the LEFT$/RIGHT$/UCASE$/LCASE$/LTRIM$/RTRIM$/SPACE$/STRING$ instances are missing from this run" % e]
    casts = b.file(sk.CASTS_FILE, "rusty_basic", "interpreter::variant_casts")
    sk.arg_casts(b, casts, "vk_c17")
    return b.build(
        tier,
        notes=notes,
        bounds="strings of exactly 0..3 (quick) / 0..4 (thorough) 7-bit bytes, one instance per length; needle 1..2; MID$ start 1..32767 and count 0..32767 (everything the argument conversions let through), INSTR start 1..len+2; "
               "VAL on 1, 3, 5 digits (quick) / up to 7 digits (thorough) and around the LONG boundary (+-21474836dd); argument conversions full width",
        outside="LEFT$, RIGHT$, LTRIM$, RTRIM$, UCASE$, LCASE$, SPACE$, STRING$, LEN and the concatenation laws (inline in "
                "run<S: InterpreterTrait>, need the VM Context); STR$ (format!); non-ASCII strings; INSTR with an empty needle",
        stubs=[bifn.STUB_NOTE, "f64::powi(10.0, k) -> exact product for 0 <= k <= 6 (Kani over-approximates powi); used only by vk_c17_val_*"],
        assumptions=["the string argument has been type-checked (to_str_unchecked is not part of the kernels)"],
    )
