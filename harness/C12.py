"""C12 - the static checker is sound for types: operator typing table against the dynamic operations (DESIGN 4/C12)."""
from vklib import Builder
from C06 import gen, QUAL, NAME, T, is_int

ARITH = {"plus": "Operator::Plus", "minus": "Operator::Minus", "multiply": "Operator::Multiply", "divide": "Operator::Divide",
         "modulo": "Operator::Modulo"}
REL = {"less": "Operator::Less", "less_or_equal": "Operator::LessOrEqual", "equal": "Operator::Equal",
       "greater_or_equal": "Operator::GreaterOrEqual", "greater": "Operator::Greater", "not_equal": "Operator::NotEqual"}
LOGIC = {"and": "Operator::And", "or": "Operator::Or"}


def spec(tier, seed):
    b = Builder("C12")
    cs = b.file("rusty_linter/src/core/casting.rs", "rusty_linter", "core::casting",
                uses="    use rusty_variant::{Variant, VariantError};\n    use crate::core::CastVariant;\n")
    b.helper(cs, """
    pub fn vk_q(k: u8) -> TypeQualifier {
        match k {
            0 => TypeQualifier::BangSingle, 1 => TypeQualifier::HashDouble, 2 => TypeQualifier::DollarString,
            3 => TypeQualifier::PercentInteger, _ => TypeQualifier::AmpersandLong,
        }
    }
    pub fn vk_op(k: u8) -> Operator {
        match k {
            0 => Operator::Less, 1 => Operator::LessOrEqual, 2 => Operator::Equal, 3 => Operator::GreaterOrEqual,
            4 => Operator::Greater, 5 => Operator::NotEqual, 6 => Operator::Plus, 7 => Operator::Minus,
            8 => Operator::Multiply, 9 => Operator::Divide, 10 => Operator::Modulo, 11 => Operator::And,
            _ => Operator::Or,
        }
    }
    pub fn vk_no_mismatch<T>(r: Result<T, VariantError>) {
        match r {
            Err(VariantError::TypeMismatch) => assert!(false),
            other => std::mem::forget(other),
        }
    }
    pub fn vk_fmt(_: std::fmt::Arguments<'_>) -> String { String::new() }
    """)
    # the acceptance table itself: numeric with numeric, string with string, never mixed
    b.add(cs, "vk_c12_table_shape", """
        let (lk, rk, ok): (u8, u8, u8) = (kani::any(), kani::any(), kani::any());
        kani::assume(lk < 5 && rk < 5 && ok < 13);
        let (l, r, op) = (vk_q(lk), vk_q(rk), vk_op(ok));
        let t = cast_binary_op_q(l, r, op);
        let ls = l == TypeQualifier::DollarString;
        let rs = r == TypeQualifier::DollarString;
        if ls != rs {
            assert!(t.is_none());                 // a string operand next to a numeric one is a type mismatch
        } else if ls && rs {
            // strings: concatenation and comparison only
            let allowed = op == Operator::Plus || op.is_relational();
            assert!(t.is_some() == allowed);
            if op == Operator::Plus { assert!(t == Some(TypeQualifier::DollarString)); }
            if op.is_relational() { assert!(t == Some(TypeQualifier::PercentInteger)); }
        } else {
            assert!(t.is_some());                 // every operator applies to every pair of numeric types
            assert!(t != Some(TypeQualifier::DollarString));
        }
        // assignability: numeric <-> numeric, string <-> string
        assert!(l.can_cast_to(&r) == (ls == rs));
        """, unwind=2, exhaustive=True, cost=10, bounds="all 5 x 5 operand types x 13 operators",
          functions=["rusty_linter::core::casting::cast_binary_op_q", "rusty_linter::core::casting::bigger_numeric_type",
                     "rusty_linter::core::CanCastTo for TypeQualifier"])

    # the same table at the level of expression types: a STRING * n operand behaves like a string
    b.add(cs, "vk_c12_table_fixed_length_strings", """
        let (lk, rk, ok): (u8, u8, u8) = (kani::any(), kani::any(), kani::any());
        kani::assume(lk < 6 && rk < 6 && ok < 13);
        let n: u16 = kani::any();
        let m: u16 = kani::any();
        // kinds 0..4: built-in types, 5: STRING * n
        let l = if lk < 5 { ExpressionType::BuiltIn(vk_q(lk)) } else { ExpressionType::FixedLengthString(n) };
        let r = if rk < 5 { ExpressionType::BuiltIn(vk_q(rk)) } else { ExpressionType::FixedLengthString(m) };
        let lq = if lk < 5 { vk_q(lk) } else { TypeQualifier::DollarString };
        let rq = if rk < 5 { vk_q(rk) } else { TypeQualifier::DollarString };
        let op = vk_op(ok);
        let got = cast_binary_op_et(&l, &r, op);
        let want = cast_binary_op_q(lq, rq, op);
        match (&got, &want) {
            (Some(ExpressionType::BuiltIn(g)), Some(w)) => assert!(*g == *w),
            (None, None) => {}
            _ => assert!(false),
        }
        // assignability between expression types: strings of any kind with strings, numbers with numbers
        let ls = lq == TypeQualifier::DollarString;
        let rs = rq == TypeQualifier::DollarString;
        assert!(l.can_cast_to(&r) == (ls == rs));
        assert!(l.can_cast_to(&rq) == (ls == rs));
        std::mem::forget(got);
        std::mem::forget(l);
        std::mem::forget(r);
        """, unwind=2, exhaustive=True, cost=20, bounds="all 6 x 6 operand kinds (five built-in types and STRING * n for any n) x 13 operators",
          functions=["rusty_linter::core::casting::cast_binary_op_et", "rusty_linter::core::CanCastTo for ExpressionType"])

    for x in T:
        for y in T:
            pair = "every valid %s x %s pair (full width)" % (NAME[x], NAME[y])
            ints = is_int(x) and is_int(y)
            for op, opn in ARITH.items():
                hard = op in ("divide", "modulo") and not ints
                b.add(cs, "vk_c12_%s_%s_%s" % (op, x, y), gen("a", x) + "\n" + gen("b", y) + """
if cast_binary_op_q(%s, %s, %s).is_some() {
    vk_no_mismatch(av.%s(bv));       // accepted by the checker: evaluating it never raises Type mismatch
} else {
    assert!(false);                   // numeric operands are always accepted
}""" % (QUAL[x], QUAL[y], opn, op), unwind=2, exhaustive=True, tier="thorough" if hard else "quick", core=not hard,
                      cost=150 if hard else 5, bounds=pair,
                      functions=["rusty_linter::core::casting::cast_binary_op_q", "rusty_variant::Variant::" + op])
            # the six relational operators share one dynamic operation (try_cmp); one instance decides all six
            b.add(cs, "vk_c12_relational_%s_%s" % (x, y), gen("a", x) + "\n" + gen("b", y) + """
let ok: u8 = kani::any();
kani::assume(ok < 6);
if cast_binary_op_q(%s, %s, vk_op(ok)).is_some() {
    vk_no_mismatch(av.try_cmp(&bv));
} else {
    assert!(false);
}
std::mem::forget(av);
std::mem::forget(bv);""" % (QUAL[x], QUAL[y]), unwind=2, exhaustive=True, cost=5, bounds=pair + ", all six relational operators",
                  functions=["rusty_linter::core::casting::cast_binary_op_q", "rusty_variant::Variant::try_cmp"])
            # assignability
            b.add(cs, "vk_c12_assign_%s_to_%s" % (x, y), gen("a", x) + """
if %s.can_cast_to(&%s) {
    match av.cast(%s) {
        Err(LintError::TypeMismatch) => assert!(false),
        other => std::mem::forget(other),
    }
} else {
    assert!(false);
}""" % (QUAL[x], QUAL[y], QUAL[y]), unwind=2, exhaustive=True, cost=5, bounds="every valid %s value (full width)" % NAME[x],
                  functions=["rusty_linter::core::CanCastTo for TypeQualifier", "rusty_linter::core::CastVariant::cast"])
    # AND / OR: the VM handler casts both operands to INTEGER and then applies the bit operation
    for x in T:
        b.add(cs, "vk_c12_logical_operand_%s" % x, gen("a", x) + """
assert!(cast_binary_op_q(%s, %s, Operator::And).is_some() && cast_binary_op_q(%s, %s, Operator::Or).is_some());
match av.cast(TypeQualifier::PercentInteger) {
    Ok(Variant::VInteger(_)) => {}                       // an INTEGER-tagged operand reaches Variant::and / or
    Ok(other) => { std::mem::forget(other); assert!(false); }
    Err(LintError::TypeMismatch) => assert!(false),
    Err(e) => std::mem::forget(e),
}""" % (QUAL[x], QUAL[x], QUAL[x], QUAL[x]), unwind=2, exhaustive=True, cost=30, bounds="every valid %s value (full width)" % NAME[x],
              functions=["rusty_linter::core::CastVariant::cast", "rusty_linter::core::casting::cast_binary_op_q"])
    b.add(cs, "vk_c12_and_or_integers", """
let a: i16 = kani::any();
let c: i16 = kani::any();
vk_no_mismatch(Variant::VInteger(a as i32).and(Variant::VInteger(c as i32)));
vk_no_mismatch(Variant::VInteger(a as i32).or(Variant::VInteger(c as i32)));""", unwind=18, exhaustive=True, cost=30,
          bounds="all 2^32 INTEGER pairs; unwind 18 (checked)", functions=["rusty_variant::Variant::and", "rusty_variant::Variant::or"])
    # strings: comparison and concatenation are accepted and do not mismatch
    b.add(cs, "vk_c12_string_operands", """
        // Type mismatch depends on the tags only: empty strings stand for every string value
        let av = Variant::VString(String::new());
        let bv = Variant::VString(String::new());
        let ok: u8 = kani::any();
        kani::assume(ok < 6);
        assert!(cast_binary_op_q(TypeQualifier::DollarString, TypeQualifier::DollarString, vk_op(ok)).is_some());
        vk_no_mismatch(av.try_cmp(&bv));
        match av.cast(TypeQualifier::DollarString) {
            Err(LintError::TypeMismatch) => assert!(false),
            other => std::mem::forget(other),
        }
        std::mem::forget(bv);
        """, unwind=2, cost=60, core=False,
          bounds="string-tagged operands (empty strings: only the tags matter), all six relational operators, assignment",
          functions=["rusty_variant::Variant::try_cmp", "rusty_linter::core::CastVariant::cast"])
    return b.build(
        tier,
        bounds="values full width; one instance per (operator, numeric type pair): 5 arithmetic + relational + assignment per pair, AND/OR through the "
               "INTEGER cast of each operand type; float / and MOD only in thorough (non-core)",
        outside="string concatenation (format!: CBMC ran out of memory at 8 GB even with alloc::fmt::format stubbed), string-typed built-in arguments, argument rules of built-ins and subprograms, which sub-expressions the post-conversion passes "
                "visit, verdict stability under renaming, rejection of single ill-typing edits beyond the operator table: linter traversal over the AST",
        assumptions=["operand values carry the tag of their static type (C06)"],
    )
