"""C15 - generated code is well-formed: the label-resolution pass (DESIGN 4/C15).

The third pass of the generator, `LabelResolver::{resolve_labels, resolve_label, build_label_to_address_map}`, turns every
symbolic branch / call / handler / resume target into an address.  The real pass works on `Vec<InstructionPos>` (an
`Instruction` drags in `Variant`) with a `HashMap<CaseInsensitiveString, usize>`; its text is cut out of /repo's current
label_resolver.rs (harness/slicer.py) and compiled, unchanged, against stand-ins: `Instruction` / `AddressOrLabel` enums with
the same variant names and payload shapes, a label name that is a byte, and an association list for the map.
"""
from vklib import Builder
import slicer

LR = "rusty_basic/src/instruction_generator/label_resolver.rs"

ENV = """
    /// a label name (stands for CaseInsensitiveString: equality, clone, display)
    #[derive(Clone, Copy, PartialEq, Eq, Debug)]
    pub struct CaseInsensitiveString(pub u8);
    impl std::fmt::Display for CaseInsensitiveString { fn fmt(&self, _f: &mut std::fmt::Formatter<'_>) -> std::fmt::Result { Ok(()) } }
    #[derive(Clone, Copy, PartialEq, Eq, Debug)]
    pub enum AddressOrLabel { Resolved(usize), Unresolved(CaseInsensitiveString) }
    /// the instructions the resolver looks at, under their own names and shapes; everything else is `Other(k)`
    #[derive(Clone, Copy, PartialEq, Eq, Debug)]
    pub enum Instruction {
        Label(CaseInsensitiveString), Jump(AddressOrLabel), JumpIfFalse(AddressOrLabel), OnErrorGoTo(AddressOrLabel), GoSub(AddressOrLabel),
        Return(Option<AddressOrLabel>), ResumeLabel(AddressOrLabel), Other(u8),
    }
    pub type InstructionPos = Positioned<Instruction>;
    /// association list of at most %(n)d entries with the part of the HashMap interface the resolver uses
    pub struct HashMap<K, V> { pub items: [Option<(K, V)>; %(n)d] }
    impl<K: PartialEq + Copy, V: Copy> HashMap<K, V> {
        pub fn new() -> Self { HashMap { items: [None; %(n)d] } }
        pub fn get(&self, k: &K) -> Option<&V> {
            let mut i = 0usize;
            while i < %(n)d { if let Some((k0, v0)) = &self.items[i] { if *k0 == *k { return Some(v0); } } i += 1; }
            None
        }
        /// replaces the value of an existing key (the last definition of a name wins), like std's insert
        pub fn insert(&mut self, k: K, v: V) -> Option<V> {
            let mut i = 0usize;
            while i < %(n)d { if let Some((k0, v0)) = &mut self.items[i] { if *k0 == k { let old = *v0; *v0 = v; return Some(old); } } i += 1; }
            let mut i = 0usize;
            while i < %(n)d { if self.items[i].is_none() { self.items[i] = Some((k, v)); return None; } i += 1; }
            panic!("map full")
        }
    }
    impl<K: PartialEq + Copy, V: Copy> std::iter::FromIterator<(K, V)> for HashMap<K, V> {
        fn from_iter<I: IntoIterator<Item = (K, V)>>(iter: I) -> Self { let mut m = HashMap::new(); for (k, v) in iter { m.insert(k, v); } m }
    }
"""


def sliced():
    src = slicer.read(LR)
    parts = ["    // ---- text of /repo's label_resolver.rs, unchanged ----",
             "    pub " + slicer.item_text(src, r"struct\s+LabelResolver\b"),
             "    " + slicer.item_text(src, r"impl\s+LabelResolver\b")]
    return "\n\n".join(parts)


GEN = """
    /// any instruction of a program whose labels are drawn from three names; returns the instruction
    pub fn vk_any(i: usize) -> Instruction {
        let k: u8 = kani::any();
        let name = CaseInsensitiveString(kani::any::<u8>() % 3);
        let t = AddressOrLabel::Unresolved(name);
        match k {
            0 => Instruction::Label(name),
            1 => Instruction::Jump(t),
            2 => Instruction::JumpIfFalse(t),
            3 => Instruction::OnErrorGoTo(t),
            4 => Instruction::GoSub(t),
            5 => Instruction::Return(Some(t)),
            6 => Instruction::Return(None),
            7 => Instruction::ResumeLabel(t),
            8 => Instruction::Jump(AddressOrLabel::Resolved(i)),          // an already resolved target stays as it is
            _ => Instruction::Other(k),
        }
    }
    pub fn vk_target(ins: &Instruction) -> Option<AddressOrLabel> {
        match ins {
            Instruction::Jump(t) | Instruction::JumpIfFalse(t) | Instruction::OnErrorGoTo(t) | Instruction::GoSub(t) | Instruction::ResumeLabel(t) => Some(*t),
            Instruction::Return(Some(t)) => Some(*t),
            _ => None,
        }
    }
    pub fn vk_same_kind(a: &Instruction, b: &Instruction) -> bool {
        std::mem::discriminant(a) == std::mem::discriminant(b)
    }
"""


def spec(tier, seed):
    b = Builder("C15")
    lr = b.file(LR, "rusty_basic", "instruction_generator::label_resolver", uses="    use rusty_common::{AtPos, HasPos, Position};\n")
    notes = []
    sizes = [(3, "quick"), (4, "quick"), (5, "thorough"), (6, "thorough")]
    try:
        text = sliced()
        n_max = max(n for n, _ in sizes)
        b.helper(lr, ENV % {"n": n_max})
        b.helper(lr, text)
        b.helper(lr, GEN)
        for n, t in sizes:
            b.add(lr, "vk_c15_resolve_labels_n%d" % n, """
        let before: [Instruction; %(n)d] = std::array::from_fn(|i| vk_any(i));
        // where each of the three names is defined, and how often
        let mut def_at: [usize; 3] = [0; 3];
        let mut def_count: [usize; 3] = [0; 3];
        let mut i = 0usize;
        while i < %(n)d {
            if let Instruction::Label(CaseInsensitiveString(x)) = before[i] { def_at[x as usize] = i; def_count[x as usize] += 1; }
            i += 1;
        }
        // an accepted program defines every label once and refers only to labels that exist (the checker's job)
        let mut i = 0usize;
        while i < 3 { kani::assume(def_count[i] <= 1); i += 1; }
        let mut i = 0usize;
        while i < %(n)d {
            if let Some(AddressOrLabel::Unresolved(CaseInsensitiveString(x))) = vk_target(&before[i]) { kani::assume(def_count[x as usize] == 1); }
            i += 1;
        }
        let mut v: Vec<InstructionPos> = Vec::with_capacity(%(n)d);
        let mut i = 0usize;
        while i < %(n)d { v.push(before[i].at_pos(Position::new(i as u32 + 1, 1))); i += 1; }
        let mut r = LabelResolver::new(v);
        r.resolve_labels();
        // same length; every target is an address inside the list: the address of the label of that name; nothing else changes
        assert!(r.instructions.len() == %(n)d);
        let mut i = 0usize;
        while i < %(n)d {
            let after = r.instructions[i].element;
            assert!(r.instructions[i].pos() == Position::new(i as u32 + 1, 1));
            assert!(vk_same_kind(&before[i], &after));
            match vk_target(&before[i]) {
                Some(AddressOrLabel::Unresolved(CaseInsensitiveString(x))) => {
                    match vk_target(&after) {
                        Some(AddressOrLabel::Resolved(a)) => {
                            assert!(a < %(n)d);
                            assert!(a == def_at[x as usize]);
                            assert!(r.instructions[a].element == Instruction::Label(CaseInsensitiveString(x)));
                        }
                        _ => assert!(false),
                    }
                }
                _ => assert!(after == before[i]),
            }
            i += 1;
        }
        std::mem::forget(r);
        """ % {"n": n}, unwind=n_max + 2, tier=t, cost=40 * n,
                  bounds="every program of exactly %d instructions over {Label, Jump, JumpIfFalse, OnErrorGoTo, GoSub, Return label, Return, ResumeLabel, a resolved "
                         "Jump, other}, labels drawn from three names, each defined at most once, every referenced label defined" % n,
                  functions=["rusty_basic::instruction_generator::label_resolver::LabelResolver::{new, resolve_labels, resolve_label, build_label_to_address_map} (text, sliced)"])
        # a duplicated label: the map keeps the last definition (C02's mechanism note); decided so that a change of that rule is seen
        b.add(lr, "vk_c15_duplicate_label_last_wins", """
        let name = CaseInsensitiveString(1);
        let v: Vec<InstructionPos> = vec![
            Instruction::Jump(AddressOrLabel::Unresolved(name)).at_pos(Position::new(1, 1)),
            Instruction::Label(name).at_pos(Position::new(2, 1)),
            Instruction::Other(9).at_pos(Position::new(3, 1)),
            Instruction::Label(name).at_pos(Position::new(4, 1)),
        ];
        let mut r = LabelResolver::new(v);
        r.resolve_labels();
        assert!(r.instructions[0].element == Instruction::Jump(AddressOrLabel::Resolved(3)));
        std::mem::forget(r);
        """, unwind=n_max + 2, tier="quick", cost=20, bounds="one program with a label defined twice",
              functions=["rusty_basic::instruction_generator::label_resolver::LabelResolver::build_label_to_address_map (text, sliced)"])
    except slicer.SliceError as e:
        notes.append("LabelResolver could not be sliced from the current tree: %s" % e)
    return b.build(
        tier,
        notes=notes,
        bounds="programs of 3, 4 (quick) and 5, 6 (thorough) instructions over the label-related instruction kinds, three label names",
        outside="everything before the resolver: that the generator emits each label once, keeps a procedure's branches inside it, ends the main module with a "
                "halt and every procedure with a return, pairs its pushes and pops (statement trees through the generator are not symbolically executable, "
                "DESIGN 0); the order of statement addresses; unresolved labels (the checker's job, C08)",
        stubs=["Instruction / AddressOrLabel -> enums with the label-related variants (same names and payload shapes); CaseInsensitiveString -> a byte; "
               "std HashMap -> association list with replace-on-insert (the sliced text of LabelResolver is compiled against them unchanged)"],
        assumptions=["every label is defined at most once and every referenced label is defined (what the static checker guarantees)"],
    )
