"""C11 - every diagnostic names the right place: position arithmetic and error envelopes (DESIGN 4/C11)."""
from vklib import Builder
import vmctl
import slicer

TEXT = """
    /// n symbolic characters over {x, CR, LF}; returns the selector array too
    macro_rules! vk_chars {
        ($chars:ident, $sel:ident, $n:expr) => {
            let $sel: [u8; $n] = kani::any();
            let mut $chars: Vec<char> = Vec::with_capacity($n);
            let mut vk_k = 0usize;
            while vk_k < $n {
                kani::assume($sel[vk_k] < 3);
                $chars.push(match $sel[vk_k] { 0 => 'x', 1 => '\\r', _ => '\\n' });
                vk_k += 1;
            }
        };
    }
    /// reference: (row, col) of character k. A line ends at LF or at a CR not followed by LF; the CR of a CRLF pair
    /// has no width of its own. Rows and columns count from 1.
    pub fn vk_row_col(sel: &[u8], k: usize) -> (u32, u32) {
        let mut row = 1u32;
        let mut col = 1u32;
        let mut j = 0usize;
        while j < k {
            let ends_line = sel[j] == 2 || (sel[j] == 1 && !(j + 1 < sel.len() && sel[j + 1] == 2));
            let crlf_cr = sel[j] == 1 && j + 1 < sel.len() && sel[j + 1] == 2;
            if ends_line { row += 1; col = 1; } else if !crlf_cr { col += 1; }
            j += 1;
        }
        (row, col)
    }
"""


def spec(tier, seed):
    b = Builder("C11")
    rc = b.file("rusty_parser/src/input/row_col_view.rs", "rusty_parser", "input::row_col_view")
    b.helper(rc, TEXT)
    for n in (1, 2, 3, 4, 5, 6, 7):
        b.add(rc, "vk_c11_row_col_len%d" % n, """
        vk_chars!(chars, sel, %(n)d);
        let view = create_row_col_view(&chars);
        assert!(view.len() == %(n)d);
        let k: usize = kani::any();
        kani::assume(k < %(n)d);
        let (row, col) = vk_row_col(&sel, k);
        assert!(view[k].row() == row && view[k].col() == col);
        assert!(view[k].row() >= 1 && view[k].col() >= 1);
        std::mem::forget(view);
        std::mem::forget(chars);
        """ % {"n": n}, unwind=n + 2, tier="quick" if n <= 5 else "thorough", cost=5 * n,
              bounds="every text of exactly %d characters over {x, CR, LF}, every character index" % n,
              functions=["rusty_parser::input::row_col_view::create_row_col_view"])
    sv = b.file("rusty_parser/src/input/string_view.rs", "rusty_parser", "input::string_view")
    for n in (0, 1, 2, 3, 4, 5):
        body = """
        let sel: [u8; %(n)d] = kani::any();
        let mut chars: Vec<char> = Vec::with_capacity(%(n)d + 1);
        let mut k = 0usize;
        while k < %(n)d {
            kani::assume(sel[k] < 3);
            chars.push(match sel[k] { 0 => 'x', 1 => '\\r', _ => '\\n' });
            k += 1;
        }
        let row_col = create_row_col_view(&chars);
        let index: usize = kani::any();
        kani::assume(index <= %(n)d + 1);                       // at any character, at the end, or past it
        let view = StringView { chars, row_col, index };
        let p = view.position();
        if index < %(n)d {
            assert!(p == view.row_col[index]);                 // inside the text: the table entry of that character
        } else if %(n)d == 0 {
            assert!(p == Position::new(1, 1));
        } else {
            // immediately after the last character
            let last = view.row_col[%(n)d - 1];
            assert!(p.row() == last.row() && p.col() == last.col() + 1);
        }
        assert!(view.pos() == p);
        std::mem::forget(view);
        """ % {"n": n}
        b.add(sv, "vk_c11_position_len%d" % n, body, unwind=n + 2, tier="quick" if n <= 3 else "thorough", cost=5 + 10 * n,
              bounds="every text of exactly %d characters over {x, CR, LF}; reader index 0..%d" % (n, n + 1),
              functions=["rusty_parser::input::StringView::position", "rusty_parser::input::string_view::StringView::eof_row_col",
                         "rusty_common::Position::inc_col"])
    ee = b.file("rusty_basic/src/error_envelope.rs", "rusty_basic", "error_envelope")
    for n in (0, 1, 2, 3, 4):
        b.add(ee, "vk_c11_stacktrace_depth%d" % n, """
        // an error at `at`, raised while the VM's call-site stack is [p1 innermost .. pn]
        let rows: [u16; %(n)d + 1] = kani::any();
        let mut stack: Vec<Position> = Vec::with_capacity(%(n)d + 1);
        let mut k = 0usize;
        while k < %(n)d { stack.push(Position::new(rows[k] as u32 + 1, 1)); k += 1; }
        let at = Position::new(rows[%(n)d] as u32 + 1, 7);
        let r: Result<(), u8> = Err(13);
        let e = match r.with_err_at(&at) { Err(e) => e, Ok(()) => { assert!(false); return; } };
        let e = e.with_stacktrace(&mut stack);
        assert!(stack.is_empty());                              // drained: the same call sites are never reported twice
        assert!(*e.err() == 13);
        assert!(e.1.len() == %(n)d + 1);
        assert!(e.1[0] == at);                                  // the failing statement first
        let mut k = 0usize;
        while k < %(n)d { assert!(e.1[k + 1] == Position::new(rows[k] as u32 + 1, 1)); k += 1; }   // then call sites, innermost first
        std::mem::forget(e);
        std::mem::forget(stack);
        """ % {"n": n}, unwind=n + 3, tier="quick" if n <= 3 else "thorough", cost=10 + 5 * n,
              bounds="call stacks of exactly %d call sites, any rows" % n,
              functions=["rusty_basic::error_envelope::WithErrAt::with_err_at", "rusty_basic::error_envelope::WithStacktrace for ErrorEnvelope",
                         "rusty_basic::error_envelope::ErrorEnvelope::appen_draining_stacktrace", "rusty_basic::error_envelope::ErrorEnvelope::new"])
        if n >= 1:
            b.add(ee, "vk_c11_builtin_stacktrace_depth%d" % n, """
        // a built-in fails: the VM's stack already holds the call site of the built-in first
        let rows: [u16; %(n)d] = kani::any();
        let mut stack: Vec<Position> = Vec::with_capacity(%(n)d);
        let mut k = 0usize;
        while k < %(n)d { stack.push(Position::new(rows[k] as u32 + 1, 1)); k += 1; }
        let r: Result<(), u8> = Err(5);
        let e = match r.with_stacktrace(&mut stack) { Err(e) => e, Ok(()) => { assert!(false); return; } };
        assert!(stack.is_empty());
        assert!(*e.err() == 5);
        assert!(e.1.len() == %(n)d);
        let mut k = 0usize;
        while k < %(n)d { assert!(e.1[k] == Position::new(rows[k] as u32 + 1, 1)); k += 1; }
        std::mem::forget(e);
        std::mem::forget(stack);
        """ % {"n": n}, unwind=n + 3, tier="quick" if n <= 3 else "thorough", cost=10 + 5 * n,
                  bounds="call stacks of exactly %d call sites, any rows" % n,
                  functions=["rusty_basic::error_envelope::WithStacktrace for Result", "rusty_basic::error_envelope::ErrorEnvelope::new_draining_stacktrace"])
    pos = b.file("rusty_common/src/position.rs", "rusty_common", "position")
    b.add(pos, "vk_c11_position_round_trip", """
        // a position keeps any row and column it is given (files of any length, lines of any length)
        let row: u32 = kani::any();
        let col: u32 = kani::any();
        kani::assume(row >= 1 && col >= 1 && row < u32::MAX && col < u32::MAX);
        let p = Position::new(row, col);
        assert!(p.row() == row && p.col() == col);
        let q = p.inc_col();
        assert!(q.row() == row && q.col() == col + 1);
        let r = p.inc_row();
        assert!(r.row() == row + 1 && r.col() == 1);
        assert!(Position::start().row() == 1 && Position::start().col() == 1);
        let (orow, ocol): (u32, u32) = (kani::any(), kani::any());
        kani::assume(orow >= 1 && ocol >= 1);
        let other = Position::new(orow, ocol);
        assert!((p == other) == (other.row() == row && other.col() == col));
        """, unwind=2, exhaustive=True, cost=5, bounds="every row and column (full u32 width)",
          functions=["rusty_common::Position::new", "rusty_common::Position::row", "rusty_common::Position::col",
                     "rusty_common::Position::inc_col", "rusty_common::Position::inc_row"])
    pd = b.file("rusty_common/src/positioned.rs", "rusty_common", "positioned")
    b.add(pd, "vk_c11_positioned_keeps_position", """
        // a located node keeps its position through every re-wrapping the linter does (map, try_map, at, at_rc)
        let row: u32 = kani::any();
        let col: u32 = kani::any();
        kani::assume(row >= 1 && col >= 1);
        let p = Position::new(row, col);
        let v: u8 = kani::any();
        let node = v.at_pos(p);
        assert!(node.pos() == p && node.element == v);
        let mapped = node.clone().map(|x| (x, 1u8));
        assert!(mapped.pos() == p && mapped.element == (v, 1));
        let ok: bool = kani::any();
        match node.clone().try_map(|x| if ok { Ok(x as u16 + 1) } else { Err(7u8) }) {
            Ok(m) => assert!(ok && m.pos() == p && m.element == v as u16 + 1),
            Err(e) => assert!(!ok && e == 7),
        }
        let other = 9u8.at(&node);
        assert!(other.pos() == p);
        assert!(3u8.at_rc(row, col).pos() == p);
        assert!(p.pos() == p);
        let boxed = Box::new(node);
        assert!(boxed.pos() == p);
        """, unwind=2, exhaustive=True, cost=5, bounds="every row and column (full u32 width)",
          functions=["rusty_common::Positioned::map", "rusty_common::Positioned::try_map", "rusty_common::AtPos::at_pos", "rusty_common::AtPos::at",
                     "rusty_common::AtPos::at_rc", "rusty_common::HasPos::pos"])
    # the call-site stack through one VM step from an arbitrary state (PushStack / PopStack / a failing statement / PushRet / PopRet)
    notes = []
    try:
        vmctl.add(b, "vk_c11", [("calls0", 2), ("calls1", 1), ("calls1", 3), ("calls2", 2)])
    except slicer.SliceError as e:
        notes.append("the control arms of interpret_one could not be sliced from the current tree (%s): vk_c11_vm_step_* missing from this run" % e)
    return b.build(
        tier,
        notes=notes,
        stubs=[vmctl.STUB_NOTE],
        bounds="texts of 1..5 characters over {x, CR, LF} (quick) / ..7 (thorough); reader positions on texts of 0..3 / ..5; call stacks of 0..3 / ..4",
        outside="that positions survive parser -> linter -> generator (with_pos, Positioned rebuilding, instruction positions)",
        assumptions=["PopStack / PopRet are executed only after their PushStack / PushRet (the generated call protocol)"],
    )
