"""Harness bodies for the string/argument kernels shared by C08 (no internal failure) and C17 (defining equations)."""

MID_FILE = "rusty_basic/src/interpreter/built_ins/mid_fn.rs"
INSTR_FILE = "rusty_basic/src/interpreter/built_ins/instr.rs"
VAL_FILE = "rusty_basic/src/interpreter/built_ins/val.rs"
CASTS_FILE = "rusty_basic/src/interpreter/variant_casts.rs"

ASCII_TEXT = """
    /// `N` symbolic 7-bit bytes viewed as a str (no allocation)
    macro_rules! vk_ascii {
        ($name:ident, $bytes:ident, $n:expr) => {
            let $bytes: [u8; $n] = kani::any();
            let mut vk_k = 0usize;
            while vk_k < $n {
                kani::assume($bytes[vk_k] < 128);
                vk_k += 1;
            }
            let $name: &str = unsafe { std::str::from_utf8_unchecked(&$bytes) };
        };
    }
"""

UNICODE_TEXT = """
    /// `n` symbolic letters over {a, b, e-acute}: byte length n..2n, includes non-ASCII text
    pub fn vk_text(n: usize) -> String {
        let mut s = String::with_capacity(2 * n + 1);
        let mut k = 0usize;
        while k < n {
            let c: u8 = kani::any();
            kani::assume(c < 3);
            s.push(match c { 0 => 'a', 1 => 'b', _ => '\\u{e9}' });
            k += 1;
        }
        s
    }
"""


def mid_equation(b, rel, prefix, n, tier, full_range=False):
    """MID$(s, a, n) = bytes a-1 .. min(len, a-1+n); MID$(s, a) = the rest; split law."""
    hi = 32767 if full_range else 7
    b.add(rel, "%s_mid_len%d" % (prefix, n), """
        vk_ascii!(s, bytes, %(n)d);
        let start: usize = kani::any();
        kani::assume(start >= 1 && start <= %(hi)d);
        let has_count: bool = kani::any();
        let count: usize = kani::any();
        kani::assume(count <= %(hi)d);
        let r = match do_mid(s, start, if has_count { Some(count) } else { None }) {
            Ok(r) => r,
            Err(e) => { std::mem::forget(e); assert!(false); return; }
        };
        let lo = if start - 1 < %(n)d { start - 1 } else { %(n)d };
        let hi = if has_count && start - 1 + count < %(n)d { start - 1 + count } else { %(n)d };
        let want_len = if hi > lo { hi - lo } else { 0 };
        assert!(r.len() == want_len);
        let rb = r.as_bytes();
        let mut k = 0usize;
        while k < want_len {
            assert!(rb[k] == bytes[lo + k]);
            k += 1;
        }
        std::mem::forget(r);
        """ % {"n": n, "hi": hi}, unwind=n + 2, tier=tier, cost=20 * (n + 1) ** 2,
          bounds="every string of exactly %d 7-bit bytes; start 1..%d, count absent or 0..%d" % (n, hi, hi),
          functions=["rusty_basic::interpreter::built_ins::mid_fn::do_mid"])
    if n >= 1:
        b.add(rel, "%s_mid_split_len%d" % (prefix, n), """
        vk_ascii!(s, bytes, %(n)d);
        let cut: usize = kani::any();
        kani::assume(cut <= %(n)d + 1);
        // MID$(s, 1, cut) followed by MID$(s, cut + 1) is s
        let left = match do_mid(s, 1, Some(cut)) { Ok(r) => r, Err(e) => { std::mem::forget(e); assert!(false); return; } };
        let right = match do_mid(s, cut + 1, None) { Ok(r) => r, Err(e) => { std::mem::forget(e); assert!(false); return; } };
        assert!(left.len() + right.len() == %(n)d);
        let (lb, rb) = (left.as_bytes(), right.as_bytes());
        let mut k = 0usize;
        while k < %(n)d {
            let got = if k < lb.len() { lb[k] } else { rb[k - lb.len()] };
            assert!(got == bytes[k]);
            k += 1;
        }
        std::mem::forget(left);
        std::mem::forget(right);
        """ % {"n": n}, unwind=n + 2, tier=tier, cost=25 * (n + 1) ** 2,
              bounds="every string of exactly %d 7-bit bytes; every cut position 0..%d" % (n, n + 1),
              functions=["rusty_basic::interpreter::built_ins::mid_fn::do_mid"])


def mid_long(b, rel, prefix, n, tier, core=True):
    """MID$ on a long text of fixed content: lengths and positions far beyond one byte's range."""
    b.add(rel, "%s_mid_long%d" % (prefix, n), """
        let bytes: [u8; %(n)d] = [b'x'; %(n)d];
        let s: &str = unsafe { std::str::from_utf8_unchecked(&bytes) };
        let start: usize = kani::any();
        kani::assume(start >= 1 && start <= 32767);
        let has_count: bool = kani::any();
        let count: usize = kani::any();
        kani::assume(count <= 32767);
        let r = match do_mid(s, start, if has_count { Some(count) } else { None }) {
            Ok(r) => r,
            Err(e) => { std::mem::forget(e); assert!(false); return; }
        };
        let lo = if start - 1 < %(n)d { start - 1 } else { %(n)d };
        let hi = if has_count && start - 1 + count < %(n)d { start - 1 + count } else { %(n)d };
        let want_len = if hi > lo { hi - lo } else { 0 };
        assert!(r.len() == want_len);          // in particular MID$(s, a) is the whole rest, however long
        let k: usize = kani::any();
        if k < want_len { assert!(r.as_bytes()[k] == b'x'); }
        std::mem::forget(r);
        """ % {"n": n}, unwind=4, tier=tier, core=core, cost=100,
          bounds="a text of %d characters (fixed content); start 1..32767, count absent or 0..32767" % n,
          functions=["rusty_basic::interpreter::built_ins::mid_fn::do_mid"])


def instr_equation(b, rel, prefix, h, m, tier):
    """INSTR(n, s, t) for non-empty t = least position >= n where t occurs in s, else 0."""
    b.add(rel, "%s_instr_hay%d_needle%d" % (prefix, h, m), """
        vk_ascii!(hay, hb, %(h)d);
        vk_ascii!(needle, nb, %(m)d);
        let start: usize = kani::any();
        kani::assume(start >= 1 && start <= %(h)d + 2);
        let r = match do_instr(start, hay, needle) {
            Ok(r) => r,
            Err(e) => { std::mem::forget(e); assert!(false); return; }
        };
        assert!(r >= 0 && (r as usize) <= %(h)d);
        // reference: occurrence test at every position
        let mut first: usize = 0;           // 1-based, 0 = none
        let mut p = %(h)d + 1;
        while p > 0 {
            p -= 1;
            if p + 1 >= start && p + %(m)d <= %(h)d {
                let mut all = true;
                let mut j = 0usize;
                while j < %(m)d {
                    if hb[p + j] != nb[j] { all = false; }
                    j += 1;
                }
                if all { first = p + 1; }
            }
        }
        assert!(r as usize == first);
        """ % {"h": h, "m": m}, unwind=h + 3, tier=tier, cost=15 * (h + 1) * (m + 1),
          bounds="every haystack of exactly %d and needle of exactly %d 7-bit bytes; start 1..%d" % (h, m, h + 2),
          functions=["rusty_basic::interpreter::built_ins::instr::do_instr"])


def val_equation(b, rel, prefix, digits, signed, tier, core=True):
    n = digits + (1 if signed else 0)
    first_digit = 1 if signed else 0
    sign_setup = """
        let minus: bool = kani::any();
        bytes[0] = if minus { b'-' } else { b'+' };""" if signed else """
        let minus = false;"""
    b.add(rel, "%s_val_%s%d" % (prefix, "signed" if signed else "digits", digits), """
        // every byte is one of ten constants chosen by a symbolic digit (a byte constrained only by an assumption makes CBMC
        // walk the multi-byte branches of the UTF-8 decoder: no verdict in 600 s even for one digit)
        let mut bytes: [u8; %(n)d] = [b'0'; %(n)d];%(sign)s
        let mut k = %(fd)d;
        let mut want: i64 = 0;
        while k < %(n)d {
            let d: u8 = kani::any();
            kani::assume(d < 10);
            bytes[k] = match d { 0 => b'0', 1 => b'1', 2 => b'2', 3 => b'3', 4 => b'4', 5 => b'5', 6 => b'6', 7 => b'7', 8 => b'8', _ => b'9' };
            want = want * 10 + d as i64;
            k += 1;
        }
        if minus { want = -want; }
        let s: &str = unsafe { std::str::from_utf8_unchecked(&bytes) };
        // the result is bound and forgotten: letting the temporary drop runs Variant's recursive drop glue (no verdict in 600 s)
        match val(s) {
            Ok(v) => {
                match &v {
                    // the narrowest type that holds the value
                    Variant::VInteger(got) => assert!(*got as i64 == want && want >= -32768 && want <= 32767),
                    Variant::VLong(got) => assert!(*got == want && (want < -32768 || want > 32767) && want >= -2147483648 && want <= 2147483647),
                    Variant::VDouble(got) => assert!(*got == want as f64 && (want < -2147483648 || want > 2147483647)),
                    _ => assert!(false),
                }
                std::mem::forget(v);
            }
            Err(e) => { std::mem::forget(e); assert!(false); }
        }
        """ % {"n": n, "sign": sign_setup, "fd": first_digit},
          unwind=n + 2, tier=tier, core=core, cost=10 * 3 ** digits, stubs=[("f64::powi", "vk_powi10")],
          bounds="every decimal spelling with exactly %d digits%s" % (digits, " and a leading + or -" if signed else ""),
          functions=["rusty_basic::interpreter::built_ins::val::val"])


def val_boundary(b, rel, prefix, tier="quick"):
    """VAL around the LONG / DOUBLE boundary: the first eight digits fixed at 21474836, the last two symbolic, optional minus."""
    b.add(rel, "%s_val_long_boundary" % prefix, """
        let mut bytes: [u8; 11] = *b"+2147483600";
        let minus: bool = kani::any();
        if minus { bytes[0] = b'-'; }
        let mut want: i64 = 21474836;
        let mut k = 9usize;
        while k < 11 {
            let d: u8 = kani::any();
            kani::assume(d < 10);
            bytes[k] = match d { 0 => b'0', 1 => b'1', 2 => b'2', 3 => b'3', 4 => b'4', 5 => b'5', 6 => b'6', 7 => b'7', 8 => b'8', _ => b'9' };
            want = want * 10 + d as i64;
            k += 1;
        }
        if minus { want = -want; }
        let s: &str = unsafe { std::str::from_utf8_unchecked(&bytes) };
        match val(s) {
            Ok(v) => {
                match &v {
                    Variant::VLong(got) => assert!(*got == want && want >= -2147483648 && want <= 2147483647),
                    Variant::VDouble(got) => assert!(*got == want as f64 && (want < -2147483648 || want > 2147483647)),
                    _ => assert!(false),
                }
                std::mem::forget(v);
            }
            Err(e) => { std::mem::forget(e); assert!(false); }
        }
        """, unwind=13, tier=tier, cost=60, stubs=[("f64::powi", "vk_powi10")],
          bounds="the numerals +-21474836dd for every pair of digits dd (both sides of the LONG range)",
          functions=["rusty_basic::interpreter::built_ins::val::val"])


POWI10 = """
    /// 10^k for the small k a short numeral reaches (Kani over-approximates f64::powi; with the real powi reachable the
    /// VAL harnesses got no verdict in 600 s)
    pub fn vk_powi10(base: f64, k: i32) -> f64 {
        assert!(base == 10.0 && k >= 0 && k <= 6);
        let mut r = 1.0f64;
        let mut i = 0;
        while i < k { r *= 10.0; i += 1; }
        r
    }
"""


def arg_casts(b, rel, prefix):
    """to_non_negative_int / to_positive_int / to_record_number / to_file_handle for every numeric value."""
    gens = {
        "I": ("let a: i16 = kani::any(); let v = Variant::VInteger(a as i32); let x = a as f64;", "INTEGER", 5),
        "L": ("let a: i32 = kani::any(); let v = Variant::VLong(a as i64); let x = a as f64;", "LONG", 8),
        "S": ("let a: f32 = kani::any(); kani::assume(a.is_finite()); let v = Variant::VSingle(a); let x = a as f64;", "SINGLE", 60),
        "D": ("let a: f64 = kani::any(); kani::assume(a.is_finite()); let v = Variant::VDouble(a); let x = a;", "DOUBLE", 80),
    }
    for t, (g, name, cost) in gens.items():
        b.add(rel, "%s_arg_casts_%s" % (prefix, t), g + """
        // x is the exact value; the conversions round to nearest (either tie rule accepted)
        match v.to_non_negative_int() {
            Ok(n) => { assert!(n <= 32767); assert!(((n as f64) - x).abs() <= 0.5); }
            Err(RuntimeError::IllegalFunctionCall) => assert!(x <= -0.5),
            Err(RuntimeError::Overflow) => assert!(x >= 32767.5 || x <= -32768.5),
            Err(e) => { std::mem::forget(e); assert!(false); }
        }
        match v.to_positive_int() {
            Ok(n) => { assert!(n >= 1 && n <= 32767); assert!(((n as f64) - x).abs() <= 0.5); }
            Err(RuntimeError::IllegalFunctionCall) => assert!(x <= 0.5),
            Err(RuntimeError::Overflow) => assert!(x >= 32767.5 || x <= -32768.5),
            Err(e) => { std::mem::forget(e); assert!(false); }
        }
        match v.to_record_number() {
            Ok(n) => { assert!(n >= 1 && n <= 2147483647); assert!(((n as f64) - x).abs() <= 0.5); }
            Err(RuntimeError::BadRecordNumber) => assert!(x <= 0.5),
            Err(RuntimeError::Overflow) => assert!(x >= 2147483647.5 || x <= -2147483648.5),
            Err(e) => { std::mem::forget(e); assert!(false); }
        }
        match v.to_file_handle() {
            Ok(h) => { let n: i32 = h.into(); assert!(n >= 1 && n <= 255); assert!(((n as f64) - x).abs() <= 0.5); }
            Err(RuntimeError::BadFileNameOrNumber) => assert!(x <= 0.5 || x >= 255.5),
            Err(RuntimeError::Overflow) => assert!(x >= 32767.5 || x <= -32768.5),
            Err(e) => { std::mem::forget(e); assert!(false); }
        }
        std::mem::forget(v);
        """, unwind=2, exhaustive=True, cost=cost, bounds="every valid %s value (full width)" % name,
              functions=["rusty_basic::interpreter::variant_casts::VariantCasts::to_non_negative_int",
                         "rusty_basic::interpreter::variant_casts::VariantCasts::to_positive_int",
                         "rusty_basic::interpreter::variant_casts::VariantCasts::to_record_number",
                         "rusty_basic::interpreter::variant_casts::VariantCasts::to_file_handle"])


SU_FILE = "rusty_basic/src/interpreter/string_utils.rs"


def fix_length_kernel(b, rel, prefix, shape, length, tier, core=True):
    """fix_length(s, n): exactly n bytes afterwards - the text up to its first NUL, cut or padded with blanks - and no internal
    failure when the cut falls inside a multi-byte character.  shape: x = one of {a, NUL}, e = U+00E9 (two bytes); target
    length concrete per instance."""
    parts, decl = [], []
    for k, c in enumerate(shape):
        if c == "x":
            decl.append("let s%d: bool = kani::any(); let c%d: u8 = if s%d { b'a' } else { 0 };" % (k, k, k))
            parts.append("c%d" % k)
        else:
            parts += ["0xC3", "0xA9"]
    nb = len(parts)
    b.add(rel, "%s_fix_length_%s_to%d" % (prefix, shape or "empty", length), """
        %(decl)s
        let bytes: [u8; %(nb)d] = [%(arr)s];
        let mut s: String = unsafe { String::from_utf8_unchecked(bytes.to_vec()) };
        fix_length(&mut s, %(len)d);
        // a STRING * n holds exactly n characters
        assert!(s.len() == %(len)d);
        // reference: the text up to its first NUL; whole characters are dropped from the end while it is too long; blanks fill the rest
        let mut end = %(nb)d;
        let mut k = %(nb)d;
        while k > 0 { k -= 1; if bytes[k] == 0 { end = k; } }
        let rb = s.as_bytes();
        let mut k = 0usize;
        while k < %(len)d {
            if k >= end { assert!(rb[k] == b' '); }
            else if bytes[k] < 128 { assert!(rb[k] == bytes[k]); }
            k += 1;
        }
        std::mem::forget(s);
        """ % {"decl": "\n        ".join(decl), "nb": nb, "arr": ", ".join(parts), "len": length},
          unwind=max(nb, length) + 3, tier=tier, core=core, cost=60,
          bounds="text shape '%s' (x = a or NUL, e = U+00E9 as two bytes), target length %d" % (shape, length),
          functions=["rusty_basic::interpreter::string_utils::fix_length"],
          basic='DIM c AS STRING * 4\nc = "caf" + CHR$(233) + "s"\nPRINT c')
