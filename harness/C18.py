"""C18 - files: the handle table and the record arithmetic of RANDOM files (DESIGN 4/C18).

`FileManager` (handle -> FileInfo) and `FileInfo::{get_record, put_record}` sit on `std::fs::File` (FFI) and a `HashMap`.
Their text is cut out of /repo's current io.rs (harness/slicer.py) and compiled, unchanged, against an in-memory file system:
`File` is a byte array with a position, `OpenOptions` / `File::open` / `File::create` consult a table of existing names,
`HashMap` is an association list, the sequential reader / writer wrappers are empty shells.
"""
from vklib import Builder
import slicer

IO = "rusty_basic/src/interpreter/io.rs"

ENV = """
    pub const VK_FILE: usize = 12;          // bytes of an in-memory file
    /// the error of the in-memory file system: the file does not exist
    pub struct VkIoError;
    impl From<VkIoError> for RuntimeError { fn from(_: VkIoError) -> Self { RuntimeError::FileNotFound } }   // what From<io::Error> does for NotFound
    /// which of the two file names exist on the "disk" (names are told apart by their first byte)
    pub static mut VK_EXISTS: [bool; 2] = [false; 2];
    pub fn vk_name_index(file_name: &str) -> usize { if file_name.as_bytes()[0] == b'A' { 0 } else { 1 } }
    /// an open file: contents, length, position, how it was opened
    pub struct File { pub data: [u8; VK_FILE], pub len: usize, pub pos: usize, pub name: usize }
    impl File {
        pub fn blank(name: usize) -> File { File { data: [0; VK_FILE], len: 0, pos: 0, name } }
        pub fn open(file_name: &str) -> Result<File, VkIoError> {
            let i = vk_name_index(file_name);
            if unsafe { VK_EXISTS[i] } { Ok(File::blank(i)) } else { Err(VkIoError) }
        }
        pub fn create(file_name: &str) -> Result<File, VkIoError> {
            let i = vk_name_index(file_name);
            unsafe { VK_EXISTS[i] = true; }
            Ok(File::blank(i))
        }
        pub fn seek(&mut self, p: SeekFrom) -> Result<u64, VkIoError> {
            match p { SeekFrom::Start(o) => { self.pos = o as usize; Ok(o) } _ => panic!("only SeekFrom::Start is modelled") }
        }
        /// reads what is there: fewer bytes than asked for at the end of the file
        pub fn read(&mut self, buf: &mut [u8]) -> Result<usize, VkIoError> {
            let mut n = 0usize;
            while n < buf.len() && self.pos < self.len { buf[n] = self.data[self.pos]; self.pos += 1; n += 1; }
            Ok(n)
        }
        /// writes at the position; a gap between the old end and the position reads as zeros
        pub fn write_all(&mut self, bytes: &[u8]) -> Result<(), VkIoError> {
            assert!(self.pos + bytes.len() <= VK_FILE);
            let mut k = self.len;
            while k < self.pos { self.data[k] = 0; k += 1; }
            let mut n = 0usize;
            while n < bytes.len() { self.data[self.pos] = bytes[n]; self.pos += 1; n += 1; }
            if self.pos > self.len { self.len = self.pos; }
            Ok(())
        }
    }
    pub struct OpenOptions { pub create: bool }
    impl OpenOptions {
        pub fn new() -> Self { OpenOptions { create: false } }
        pub fn read(&mut self, _x: bool) -> &mut Self { self }
        pub fn write(&mut self, _x: bool) -> &mut Self { self }
        pub fn append(&mut self, _x: bool) -> &mut Self { self }
        pub fn truncate(&mut self, _x: bool) -> &mut Self { self }
        pub fn create(&mut self, x: bool) -> &mut Self { self.create = x; self }
        pub fn open(&self, file_name: &str) -> Result<File, VkIoError> { if self.create { File::create(file_name) } else { File::open(file_name) } }
    }
    pub struct BufReader<T>(pub T);
    impl<T> BufReader<T> { pub fn new(t: T) -> Self { BufReader(t) } }
    pub struct ReadInputSource<T>(pub T);
    impl<T> ReadInputSource<T> { pub fn new(t: T) -> Self { ReadInputSource(t) } }
    pub struct WritePrinter<T>(pub T);
    impl<T> WritePrinter<T> { pub fn new(t: T) -> Self { WritePrinter(t) } }
    pub type FileInfoInput = ReadInputSource<BufReader<File>>;
    pub type FileInfoOutput = WritePrinter<File>;
    /// association list of three entries with the part of the HashMap interface FileManager uses
    pub struct HashMap<K, V> { pub items: [Option<(K, V)>; 3] }
    impl<K: PartialEq, V> HashMap<K, V> {
        pub fn new() -> Self { HashMap { items: [None, None, None] } }
        pub fn contains_key(&self, k: &K) -> bool {
            let mut i = 0usize;
            while i < 3 { if let Some((k0, _)) = &self.items[i] { if *k0 == *k { return true; } } i += 1; }
            false
        }
        pub fn get_mut(&mut self, k: &K) -> Option<&mut V> {
            if let Some((k0, _)) = &self.items[0] { if *k0 == *k { return self.items[0].as_mut().map(|kv| &mut kv.1); } }
            if let Some((k1, _)) = &self.items[1] { if *k1 == *k { return self.items[1].as_mut().map(|kv| &mut kv.1); } }
            if let Some((k2, _)) = &self.items[2] { if *k2 == *k { return self.items[2].as_mut().map(|kv| &mut kv.1); } }
            None
        }
        pub fn insert(&mut self, k: K, v: V) -> Option<V> {
            assert!(!self.contains_key(&k));          // FileManager::open checks first
            let mut i = 0usize;
            while i < 3 { if self.items[i].is_none() { self.items[i] = Some((k, v)); return None; } i += 1; }
            panic!("more than three open files")
        }
        pub fn remove(&mut self, k: &K) -> Option<V> {
            let mut i = 0usize;
            while i < 3 {
                let hit = if let Some((k0, _)) = &self.items[i] { *k0 == *k } else { false };
                if hit { let old = self.items[i].take(); std::mem::forget(old); return None; }     // the stand-in does not return the value
                i += 1;
            }
            None
        }
        pub fn clear(&mut self) { let mut i = 0usize; while i < 3 { let old = self.items[i].take(); std::mem::forget(old); i += 1; } }
        pub fn len(&self) -> usize { let mut n = 0usize; let mut i = 0usize; while i < 3 { if self.items[i].is_some() { n += 1; } i += 1; } n }
        /// empties the map and hands out the entries
        pub fn drain(&mut self) -> impl Iterator<Item = (K, V)> + '_ { self.items.iter_mut().filter_map(|kv| kv.take()) }
        pub fn values_mut(&mut self) -> impl Iterator<Item = &mut V> { self.items.iter_mut().filter_map(|kv| kv.as_mut().map(|kv| &mut kv.1)) }
        pub fn get(&self, k: &K) -> Option<&V> {
            let mut i = 0usize;
            while i < 3 { if let Some((k0, v0)) = &self.items[i] { if *k0 == *k { return Some(v0); } } i += 1; }
            None
        }
        pub fn is_empty(&self) -> bool { self.len() == 0 }
        pub fn entry(&mut self, k: K) -> Entry<'_, K, V> {
            if self.contains_key(&k) { Entry::Occupied(OccupiedEntry { map: self, key: k }) } else { Entry::Vacant(VacantEntry { map: self, key: k }) }
        }
    }
    /// the entry API of std's HashMap, for a tree that uses it
    pub enum Entry<'a, K, V> { Occupied(OccupiedEntry<'a, K, V>), Vacant(VacantEntry<'a, K, V>) }
    pub struct OccupiedEntry<'a, K, V> { pub map: &'a mut HashMap<K, V>, pub key: K }
    pub struct VacantEntry<'a, K, V> { pub map: &'a mut HashMap<K, V>, pub key: K }
    impl<'a, K: PartialEq, V> VacantEntry<'a, K, V> {
        pub fn insert(self, v: V) -> &'a mut V {
            let mut i = 0usize;
            while i < 3 { if self.map.items[i].is_none() { self.map.items[i] = Some((self.key, v)); return &mut self.map.items[i].as_mut().unwrap().1; } i += 1; }
            panic!("more than three open files")
        }
    }
    impl<'a, K: PartialEq, V> OccupiedEntry<'a, K, V> {
        pub fn get(&self) -> &V { let mut i = 0usize; while i < 3 { if let Some((k0, v0)) = &self.map.items[i] { if *k0 == self.key { return v0; } } i += 1; } panic!("occupied entry without a value") }
        pub fn into_mut(self) -> &'a mut V { self.map.get_mut(&self.key).unwrap() }
    }
"""

MANAGER_FNS = ["new", "close", "close_all", "open", "try_get_file_info", "try_get_file_info_input", "try_get_file_info_output"]
INFO_FNS = ["new_input", "new_output", "new_random", "get_record", "put_record", "ensure_random"]


def sliced():
    src = slicer.read(IO)
    _, info_impl = slicer.block(src, r"impl\s+FileInfo\b")
    _, mgr_impl = slicer.block(src, r"impl\s+FileManager\b")
    parts = ["    // ---- text of /repo's io.rs, unchanged ----",
             "    pub " + slicer.item_text(src, r"struct\s+FileInfo\b"),
             "    impl FileInfo {\n" + slicer.functions_text(info_impl, slicer.closure(info_impl, INFO_FNS)) + "\n    }",
             "    pub " + slicer.item_text(src, r"struct\s+FileManager\b"),
             "    impl FileManager {\n" + slicer.functions_text(mgr_impl, slicer.closure(mgr_impl, MANAGER_FNS)) + "\n    }"]
    return "\n\n".join(parts)


HELPERS = """
    pub fn vk_mode(k: u8) -> FileMode { match k { 0 => FileMode::Append, 1 => FileMode::Input, 2 => FileMode::Output, _ => FileMode::Random } }
    pub fn vk_name(k: bool) -> &'static str { if k { "A.TXT" } else { "B.TXT" } }
    /// is the handle open, and for which kind of access
    pub fn vk_kind(m: &mut FileManager, h: u8) -> u8 {
        match m.try_get_file_info(&FileHandle::from(h)) {
            Err(RuntimeError::FileNotFound) => 0,
            Err(e) => { std::mem::forget(e); 9 }
            Ok(fi) => if fi.input.is_some() { 1 } else if fi.output.is_some() { 2 } else if fi.random.is_some() { 3 } else { 9 },
        }
    }
"""

FUNCS_M = ["rusty_basic::interpreter::io::FileManager::{%s} (text, sliced)" % ", ".join(MANAGER_FNS),
           "rusty_basic::interpreter::io::FileInfo::{new_input, new_output, new_random} (text, sliced)"]
FUNCS_R = ["rusty_basic::interpreter::io::FileInfo::{get_record, put_record, ensure_random} (text, sliced)"]


def spec(tier, seed):
    b = Builder("C18")
    io = b.file(IO, "rusty_basic", "interpreter::io")
    notes = []
    try:
        text = sliced()
        b.helper(io, ENV)
        b.helper(io, text)
        b.helper(io, HELPERS)
        # ---- records of a RANDOM file
        for rec_len, n_ops, t in ((1, 4, "quick"), (2, 4, "quick"), (3, 3, "quick"), (2, 5, "thorough"), (4, 4, "thorough")):
            b.add(io, "vk_c18_records_len%d_%dops" % (rec_len, n_ops), """
        let mut fi = FileInfo::new_random(File::blank(0), %(l)d);
        // any sequence of PUTs and GETs on the records 1..3, against a reference: three records, zeros until written
        let mut model: [[u8; %(l)d]; 3] = [[0; %(l)d]; 3];
        let mut k = 0usize;
        while k < %(ops)d {
            let is_put: bool = kani::any();
            let r: usize = kani::any();
            kani::assume(r >= 1 && r <= 3);
            if is_put {
                let bytes: [u8; %(l)d] = kani::any();
                match fi.put_record(r, &bytes) { Ok(()) => {}, Err(e) => { std::mem::forget(e); assert!(false); } }
                model[r - 1] = bytes;
            } else {
                let got = match fi.get_record(r) { Ok(v) => v, Err(e) => { std::mem::forget(e); assert!(false); return; } };
                // a record PUT is what GET of the same number returns, whatever other records were read or written meanwhile; an unwritten
                // record reads as zeros
                assert!(got.len() == %(l)d);
                let mut j = 0usize;
                while j < %(l)d { assert!(got[j] == model[r - 1][j]); j += 1; }
                std::mem::forget(got);
            }
            k += 1;
        }
        std::mem::forget(fi);
        """ % {"l": rec_len, "ops": n_ops}, unwind=14, tier=t, cost=60 * n_ops,
                  bounds="record length %d; every sequence of %d PUT / GET operations on the records 1..3 with any contents" % (rec_len, n_ops),
                  functions=FUNCS_R, basic="OPEN \"R.DAT\" FOR RANDOM AS #1 LEN = 2")
        b.add(io, "vk_c18_record_misuse", """
        // a record length of zero, and GET / PUT on a file that is not open FOR RANDOM
        let mut zero = FileInfo::new_random(File::blank(0), 0);
        match zero.get_record(1) { Err(RuntimeError::BadRecordLength) => {}, Err(e) => { std::mem::forget(e); assert!(false); }, Ok(v) => { std::mem::forget(v); assert!(false); } }
        let mut out = FileInfo::new_output(File::blank(0));
        match out.put_record(1, &[1u8]) { Err(RuntimeError::BadFileMode) => {}, Err(e) => { std::mem::forget(e); assert!(false); }, Ok(()) => assert!(false) }
        let mut inp = FileInfo::new_input(File::blank(0));
        match inp.get_record(1) { Err(RuntimeError::BadFileMode) => {}, Err(e) => { std::mem::forget(e); assert!(false); }, Ok(v) => { std::mem::forget(v); assert!(false); } }
        std::mem::forget(zero); std::mem::forget(out); std::mem::forget(inp);
        """, unwind=14, tier="quick", cost=30, bounds="the three misuse cases", functions=FUNCS_R)
        # ---- the handle table: one operation from an arbitrary table
        b.add(io, "vk_c18_handle_open", """
        // an arbitrary table: up to two handles out of {1, 2, 3} open in any mode; any of the two files exists or not
        unsafe { VK_EXISTS = [kani::any(), kani::any()]; }
        let mut m = FileManager::new();
        let h1: u8 = kani::any();
        let h2: u8 = kani::any();
        kani::assume(h1 >= 1 && h1 <= 3 && h2 >= 1 && h2 <= 3 && h1 != h2);
        let open1: bool = kani::any();
        let open2: bool = kani::any();
        let (m1, m2): (u8, u8) = (kani::any::<u8>() & 3, kani::any::<u8>() & 3);
        if open1 { m.handle_map.insert(FileHandle::from(h1), match m1 { 1 => FileInfo::new_input(File::blank(0)), 3 => FileInfo::new_random(File::blank(0), 2), _ => FileInfo::new_output(File::blank(0)) }); }
        if open2 { m.handle_map.insert(FileHandle::from(h2), match m2 { 1 => FileInfo::new_input(File::blank(1)), 3 => FileInfo::new_random(File::blank(1), 2), _ => FileInfo::new_output(File::blank(1)) }); }
        let (k1, k2, k3) = (vk_kind(&mut m, 1), vk_kind(&mut m, 2), vk_kind(&mut m, 3));
        assert!(vk_kind(&mut m, h1) == if open1 { if m1 == 1 { 1 } else if m1 == 3 { 3 } else { 2 } } else { 0 });

        // ---- OPEN on any handle 1..3, either file, any mode
        let h: u8 = kani::any();
        kani::assume(h >= 1 && h <= 3);
        let name: bool = kani::any();
        let mode: u8 = kani::any::<u8>() & 3;
        let existed = unsafe { VK_EXISTS[if name { 0 } else { 1 }] };
        let was_open = vk_kind(&mut m, h) != 0;
        let r = m.open(FileHandle::from(h), vk_name(name), vk_mode(mode), FileAccess::Unspecified, 2);
        match r {
            Ok(()) => {
                // only a free handle can be opened; INPUT needs an existing file; the handle now has the mode asked for
                assert!(!was_open);
                assert!(mode != 1 || existed);
                assert!(vk_kind(&mut m, h) == if mode == 1 { 1 } else if mode == 3 { 3 } else { 2 });
            }
            Err(RuntimeError::FileAlreadyOpen) => { assert!(was_open); }                    // error 55
            Err(RuntimeError::FileNotFound) => { assert!(!was_open && mode == 1 && !existed); assert!(vk_kind(&mut m, h) == 0); }   // error 53
            Err(e) => { std::mem::forget(e); assert!(false); }
        }
        // the other handles are as they were
        if h != 1 { assert!(vk_kind(&mut m, 1) == k1); }
        if h != 2 { assert!(vk_kind(&mut m, 2) == k2); }
        if h != 3 { assert!(vk_kind(&mut m, 3) == k3); }
        if was_open { assert!(vk_kind(&mut m, h) == if h == 1 { k1 } else if h == 2 { k2 } else { k3 }); }
        std::mem::forget(m);
        """, unwind=6, tier="quick", cost=200, timeout=1500, mem_gb=16, bounds="any table with up to two of the handles 1..3 open in any mode; either of two file names existing or not; OPEN of any handle on either name in any mode",
              functions=FUNCS_M, basic="OPEN \"A.TXT\" FOR OUTPUT AS #1\nOPEN \"B.TXT\" FOR OUTPUT AS #1   ' error 55")
        b.add(io, "vk_c18_handle_mode_access", """
        // an arbitrary table: up to two handles out of {1, 2, 3} open in any mode; any of the two files exists or not
        unsafe { VK_EXISTS = [kani::any(), kani::any()]; }
        let mut m = FileManager::new();
        let h1: u8 = kani::any();
        let h2: u8 = kani::any();
        kani::assume(h1 >= 1 && h1 <= 3 && h2 >= 1 && h2 <= 3 && h1 != h2);
        let open1: bool = kani::any();
        let open2: bool = kani::any();
        let (m1, m2): (u8, u8) = (kani::any::<u8>() & 3, kani::any::<u8>() & 3);
        if open1 { m.handle_map.insert(FileHandle::from(h1), match m1 { 1 => FileInfo::new_input(File::blank(0)), 3 => FileInfo::new_random(File::blank(0), 2), _ => FileInfo::new_output(File::blank(0)) }); }
        if open2 { m.handle_map.insert(FileHandle::from(h2), match m2 { 1 => FileInfo::new_input(File::blank(1)), 3 => FileInfo::new_random(File::blank(1), 2), _ => FileInfo::new_output(File::blank(1)) }); }
        let (k1, k2, k3) = (vk_kind(&mut m, 1), vk_kind(&mut m, 2), vk_kind(&mut m, 3));
        assert!(vk_kind(&mut m, h1) == if open1 { if m1 == 1 { 1 } else if m1 == 3 { 3 } else { 2 } } else { 0 });

        // ---- wrong-mode access is a file error, not tolerated
        let g: u8 = kani::any();
        kani::assume(g >= 1 && g <= 3);
        let kg = if g == 1 { k1 } else if g == 2 { k2 } else { k3 };
        match m.try_get_file_info_input(&FileHandle::from(g)) {
            Ok(_) => assert!(kg == 1),
            Err(RuntimeError::BadFileMode) => assert!(kg == 2 || kg == 3),
            Err(RuntimeError::FileNotFound) => assert!(kg == 0),
            Err(e) => { std::mem::forget(e); assert!(false); }
        }
        match m.try_get_file_info_output(&FileHandle::from(g)) {
            Ok(_) => assert!(kg == 2),
            Err(RuntimeError::BadFileMode) => assert!(kg == 1 || kg == 3),
            Err(RuntimeError::FileNotFound) => assert!(kg == 0),
            Err(e) => { std::mem::forget(e); assert!(false); }
        }
        std::mem::forget(m);
        """, unwind=6, tier="quick", cost=120, bounds="any table with up to two of the handles 1..3 open in any mode; either of two file names existing or not; sequential input / output access to any handle",
              functions=FUNCS_M)
        b.add(io, "vk_c18_handle_close", """
        // an arbitrary table: up to two handles out of {1, 2, 3} open in any mode; any of the two files exists or not
        unsafe { VK_EXISTS = [kani::any(), kani::any()]; }
        let mut m = FileManager::new();
        let h1: u8 = kani::any();
        let h2: u8 = kani::any();
        kani::assume(h1 >= 1 && h1 <= 3 && h2 >= 1 && h2 <= 3 && h1 != h2);
        let open1: bool = kani::any();
        let open2: bool = kani::any();
        let (m1, m2): (u8, u8) = (kani::any::<u8>() & 3, kani::any::<u8>() & 3);
        if open1 { m.handle_map.insert(FileHandle::from(h1), match m1 { 1 => FileInfo::new_input(File::blank(0)), 3 => FileInfo::new_random(File::blank(0), 2), _ => FileInfo::new_output(File::blank(0)) }); }
        if open2 { m.handle_map.insert(FileHandle::from(h2), match m2 { 1 => FileInfo::new_input(File::blank(1)), 3 => FileInfo::new_random(File::blank(1), 2), _ => FileInfo::new_output(File::blank(1)) }); }
        let (k1, k2, k3) = (vk_kind(&mut m, 1), vk_kind(&mut m, 2), vk_kind(&mut m, 3));
        assert!(vk_kind(&mut m, h1) == if open1 { if m1 == 1 { 1 } else if m1 == 3 { 3 } else { 2 } } else { 0 });

        // ---- CLOSE of one handle frees exactly that handle; it can be opened again; CLOSE of all frees every handle
        let c: u8 = kani::any();
        kani::assume(c >= 1 && c <= 3);
        m.close(&FileHandle::from(c));
        assert!(vk_kind(&mut m, c) == 0);
        if c != 1 { assert!(vk_kind(&mut m, 1) == k1); }
        if c != 2 { assert!(vk_kind(&mut m, 2) == k2); }
        if c != 3 { assert!(vk_kind(&mut m, 3) == k3); }
        match m.open(FileHandle::from(c), vk_name(true), vk_mode(2), FileAccess::Unspecified, 0) { Ok(()) => {}, Err(e) => { std::mem::forget(e); assert!(false); } }
        assert!(vk_kind(&mut m, c) == 2);
        m.close_all();
        assert!(vk_kind(&mut m, 1) == 0 && vk_kind(&mut m, 2) == 0 && vk_kind(&mut m, 3) == 0);
        std::mem::forget(m);
        """, unwind=6, tier="quick", cost=150, bounds="any table with up to two of the handles 1..3 open in any mode; either of two file names existing or not; CLOSE of any handle, re-OPEN, CLOSE of all",
              functions=FUNCS_M)
    except slicer.SliceError as e:
        notes.append("FileManager / FileInfo could not be sliced from the current tree: %s" % e)
    return b.build(
        tier,
        notes=notes,
        bounds="records: record lengths 1..3 (4 thorough), every sequence of 3-4 (5 thorough) PUT / GET operations on the records 1..3, any contents; handle table: handles 1..3, two file names, the four modes",
        outside="that text written with PRINT # is read back by INPUT # / LINE INPUT # (ReadInputSource is io::Result-based and exceeded 20 GB at 3 input bytes; "
                "WritePrinter's column logic is under C16), EOF, APPEND keeping earlier content, KILL / NAME, FIELD / LSET, the mapping of std::io::Error kinds to "
                "BASIC errors, the host file system itself (OPEN FOR RANDOM truncates an existing file: seen by reading, not decided here)",
        stubs=["std::fs::File / OpenOptions -> an in-memory file (byte array, length, position) and a table of existing names; BufReader / ReadInputSource / "
               "WritePrinter -> empty shells; std HashMap -> association list of three entries; io::Error -> 'file not found' (the sliced text of FileInfo and "
               "FileManager is compiled against them unchanged)"],
        assumptions=["at most three files are open at a time; record numbers >= 1 (to_record_number guarantees it, C08)"],
    )
