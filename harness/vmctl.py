"""One step of the VM's control-transfer machine from an arbitrary state.

The body of the fetch-execute loop of `Interpreter::interpret` (dispatch of an error to the handler / to the next statement /
out of the program) and the control arms of `Interpreter::interpret_one` are cut out of /repo's current main.rs
(harness/slicer.py) and compiled, unchanged, against `VkVm`: a struct with the same field names as `Interpreter` for the
state these lines touch (GOSUB stack, return-address stack, call-site stack, pending error address / code) and an activation
*counter* in place of `Context`.  The harness executes ONE loop iteration from an arbitrary machine state - any GOSUB history,
any handler setting, any pending error, any call-site stack, any statement-address table - on any control instruction and
compares the successor state with a reference step written from the property text.  One step from an arbitrary state covers
runs of any length (the state space is the harness's; there is no representation invariant to maintain beyond the bounds on
the stack depths).  Shared by C05 (transfers) and C11 (call-site stack of a run-time error)."""
import re
import slicer

MAIN = "rusty_basic/src/interpreter/main.rs"

ARMS = ["Instruction::OnErrorGoTo", "Instruction::OnErrorResumeNext", "Instruction::OnErrorGoToZero", "Instruction::Jump",
        "Instruction::PushStack", "Instruction::PopStack", "Instruction::Halt", "Instruction::PushRet", "Instruction::PopRet",
        "Instruction::GoSub", "Instruction::Return", "Instruction::Resume", "Instruction::ResumeNext", "Instruction::ResumeLabel",
        "Instruction::Throw"]

ENV = """
    pub const VK_DEPTH: usize = 4;          // capacity of the GOSUB / return-address stacks of the harness
    /// stands for `Context`: the control arms only push and pop activations
    pub struct VkActivations { pub depth: usize }
    impl VkActivations {
        pub fn pop(&mut self) { assert!(self.depth > 0); self.depth -= 1; }
        pub fn push_error_handler_context(&mut self) { self.depth += 1; }
        pub fn stop_collecting_arguments(&mut self) { self.depth += 1; }
    }
    /// a stack of addresses with the part of the Vec interface the control arms use, backed by an array
    pub struct VkStack { pub data: [usize; VK_DEPTH], pub n: usize }
    impl VkStack {
        pub fn push(&mut self, v: usize) { assert!(self.n < VK_DEPTH); self.data[self.n] = v; self.n += 1; }
        pub fn pop(&mut self) -> Option<usize> { if self.n == 0 { None } else { self.n -= 1; Some(self.data[self.n]) } }
        pub fn len(&self) -> usize { self.n }
    }
    /// the fields of `Interpreter` the control arms and the fetch-execute loop touch, under their own names
    pub struct VkVm {
        pub context: VkActivations,
        pub return_address_stack: VkStack,
        pub go_sub_address_stack: VkStack,
        pub stacktrace: Vec<Position>,
        pub last_error_address: Option<usize>,
        pub last_error_code: Option<i32>,
    }
    /// the control instructions under their own names and shapes (the real `Instruction` is some hundred bytes wide because of
    /// `LoadIntoA(Variant)` and friends, and dropping one drags in the drop glue of `Variant`)
    pub enum Instruction {
        OnErrorGoTo(AddressOrLabel), OnErrorResumeNext, OnErrorGoToZero, Jump(AddressOrLabel), PushStack, PopStack, Halt,
        PushRet(usize), PopRet, GoSub(AddressOrLabel), Return(Option<AddressOrLabel>), Resume, ResumeNext, ResumeLabel(AddressOrLabel),
        Throw(VkError), Other,
    }
    /// the payload of `Throw`: two run-time errors.  (With a real `RuntimeError` in the instruction, symbolic execution walks
    /// `String::clone` of the text-carrying variants on the uninitialised payload of the other instruction kinds - a heap object of
    /// symbolic size, on which CBMC's post-processing ran out of memory.)
    pub struct VkError(pub bool);
    impl VkError { pub fn clone(&self) -> RuntimeError { if self.0 { RuntimeError::Overflow } else { RuntimeError::DivisionByZero } } }
    pub type InstructionPos = rusty_common::Positioned<Instruction>;
    /// the program: the loop body only looks at the instruction under the program counter
    pub struct VkProgram { pub at_pc: InstructionPos, pub n: usize }
    impl VkProgram { pub fn len(&self) -> usize { self.n } }
    impl std::ops::Index<usize> for VkProgram {
        type Output = InstructionPos;
        fn index(&self, i: usize) -> &InstructionPos { assert!(i < self.n); &self.at_pc }
    }
"""


def sliced():
    src = slicer.read(MAIN)
    sig1, body1 = slicer.function(src, "interpret_one")
    arms = slicer.match_arms(body1, "instruction")
    # the body of interpret_one is `match instruction { ... } Ok(())` and nothing else
    m = re.search(r"\bmatch\s+instruction\s*\{", body1)
    rest = body1[slicer.match_close(body1, m.end() - 1) + 1:].strip()
    if body1[:m.start()].strip() or rest != "Ok(())":
        raise slicer.SliceError("interpret_one is no longer `match instruction { .. } Ok(())`")
    selected = slicer.select_arms(arms, ARMS)
    sig2, body2 = slicer.function(src, "take_last_error_address")
    # private helpers of Interpreter that the selected arms or the loop body call (a refactoring may introduce some): sliced along
    helpers = []
    _, trait_impl = slicer.block(src, r"impl<[^{]*>\s*InterpreterTrait\s+for\s+Interpreter")
    sig3, body3 = slicer.function(trait_impl, "interpret")
    # the fetch-execute loop: `while i < instructions.len() && !ctx.halt { BODY }` followed by `Ok(())`
    w = re.search(r"\bwhile\s+i\s*<\s*instructions\.len\(\)\s*&&\s*!\s*ctx\.halt\s*\{", body3)
    if not w:
        raise slicer.SliceError("the fetch-execute loop `while i < instructions.len() && !ctx.halt` was not found in interpret")
    end = slicer.match_close(body3, w.end() - 1)
    if body3[end + 1:].strip() != "Ok(())":
        raise slicer.SliceError("interpret no longer ends with the fetch-execute loop and Ok(())")
    loop_body = body3[w.end():end]
    _, inherent = slicer.block(src, r"impl<[^{]*>\s*Interpreter<")
    skip = {"interpret_one", "interpret", "take_last_error_address", "new"}
    called = set(re.findall(r"\bself\s*\.\s*([A-Za-z_][A-Za-z0-9_]*)\s*\(", selected + loop_body)) | set(re.findall(r"\bSelf::([A-Za-z_][A-Za-z0-9_]*)\s*\(", selected + loop_body))
    roots = [n for n in slicer.fn_names(inherent) if n in called and n not in skip]
    for n in slicer.closure(inherent, roots, exclude=skip):
        helpers.append("        " + slicer.function_text(inherent, n))
    return """
    impl VkVm {
        // ---- text of /repo's main.rs: the selected arms of interpret_one, take_last_error_address ----
        %(sig1)s {
            match instruction {
%(arms)s
                _ => { kani::assume(false); }          // not a control instruction: outside this harness
            }
            Ok(())
        }

        %(sig2)s {%(body2)s}

%(helpers)s

        /// one iteration of the fetch-execute loop of `interpret`: the text between the braces of its `while`, unchanged
        pub fn vk_one_iteration(&mut self, instructions: &VkProgram, mut ctx: InterpretOneContext, mut i: usize)
            -> Result<(usize, InterpretOneContext), RuntimeErrorPos> {
            {%(loop_body)s}
            Ok((i, ctx))
        }
    }
""" % {"sig1": sig1, "arms": selected, "sig2": sig2, "body2": body2, "loop_body": loop_body, "helpers": "\n\n".join(helpers)}


REF = """
    /// machine state of the reference (and the pre-state of the real step)
    #[derive(Clone, Copy)]
    pub struct VkState {
        pub pc: usize, pub halted: bool,
        pub handler: u8, pub handler_at: usize,                    // 0 none, 1 resume next, 2 goto handler_at
        pub err: Option<i32>, pub pending: Option<usize>,
        pub gosub: [usize; VK_DEPTH], pub gosub_depth: usize,
        pub ret: [usize; VK_DEPTH], pub ret_depth: usize,
        pub calls: [u32; 3], pub call_depth: usize,                // rows of the call sites, innermost first
        pub activations: usize,
        pub failed: Option<(i32, u32)>,                            // the run ended with this error code at this row
    }

    /// the step the property text prescribes; marks = statement start addresses (ascending)
    pub fn vk_reference_step(s: &VkState, kind: u8, t: usize, row: u32, marks: &[usize; 4], n_marks: usize) -> VkState {
        let mut o = *s;
        let pc = s.pc;
        let mut fail: i32 = 0;
        let mut next = pc + 1;
        match kind {
            0 => { o.halted = true; }
            1 => { o.gosub[o.gosub_depth] = pc; o.gosub_depth += 1; next = t; }                       // GOSUB continues at its label
            2 | 3 => {
                if o.gosub_depth == 0 { fail = 3; }                                                   // RETURN without GOSUB
                else { o.gosub_depth -= 1; next = if kind == 2 { o.gosub[o.gosub_depth] + 1 } else { t }; }   // after the most recent GOSUB
            }
            4 => { next = t; }
            5 => { fail = 6; }
            6 => { fail = 11; }
            7 => { o.handler = 2; o.handler_at = t; }
            8 => { o.handler = 1; }
            9 => { o.handler = 0; }
            10 | 11 | 12 => {
                match s.pending {
                    None => { fail = 20; o.err = None; }                                              // RESUME without error
                    Some(a) => {
                        // the statement containing a runs from the greatest mark <= a to the least mark > a
                        let mut cur = marks[0];
                        let mut nxt = marks[n_marks - 1] + 1;
                        let mut i = 0usize;
                        while i < 4 { if i < n_marks && marks[i] <= a { cur = marks[i]; } i += 1; }
                        let mut i = 4usize;
                        while i > 0 { i -= 1; if i < n_marks && marks[i] > a { nxt = marks[i]; } }
                        next = if kind == 10 { cur } else if kind == 11 { nxt } else { t };
                        o.pending = None;                                                             // each form clears ERR
                        o.err = None;
                        o.activations -= 1;                                                           // and leaves the handler
                    }
                }
            }
            13 => {
                // PushStack: a call site, innermost first
                let mut j = 2usize;
                while j > 0 { o.calls[j] = o.calls[j - 1]; j -= 1; }
                o.calls[0] = row; o.call_depth += 1; o.activations += 1;
            }
            14 => {
                let mut j = 0usize;
                while j < 2 { o.calls[j] = o.calls[j + 1]; j += 1; }
                o.call_depth -= 1; o.activations -= 1;
            }
            15 => { o.ret[o.ret_depth] = t; o.ret_depth += 1; }                                       // PushRet
            _ => { o.ret_depth -= 1; next = o.ret[o.ret_depth]; }                                     // PopRet
        }
        if fail != 0 {
            o.err = Some(fail);
            if s.handler == 2 { o.pending = Some(pc); o.activations += 1; next = s.handler_at; }      // to the handler, ERR set
            else if s.handler == 1 {
                let mut nxt = marks[n_marks - 1] + 1;
                let mut i = 4usize;
                while i > 0 { i -= 1; if i < n_marks && marks[i] > pc { nxt = marks[i]; } }
                next = nxt;                                                                           // the statement after it
            } else { o.failed = Some((fail, row)); }                                                  // ends the program, reported with its position
        }
        o.pc = next;
        o
    }

    pub fn vk_any_instruction(kind: u8, t: usize) -> Instruction {
        match kind {
            0 => Instruction::Halt,
            1 => Instruction::GoSub(AddressOrLabel::Resolved(t)),
            2 => Instruction::Return(None),
            3 => Instruction::Return(Some(AddressOrLabel::Resolved(t))),
            4 => Instruction::Jump(AddressOrLabel::Resolved(t)),
            5 => Instruction::Throw(VkError(true)),
            6 => Instruction::Throw(VkError(false)),
            7 => Instruction::OnErrorGoTo(AddressOrLabel::Resolved(t)),
            8 => Instruction::OnErrorResumeNext,
            9 => Instruction::OnErrorGoToZero,
            10 => Instruction::Resume,
            11 => Instruction::ResumeNext,
            12 => Instruction::ResumeLabel(AddressOrLabel::Resolved(t)),
            13 => Instruction::PushStack,
            14 => Instruction::PopStack,
            15 => Instruction::PushRet(t),
            _ => Instruction::PopRet,
        }
    }
"""

STEP = """
        // ---- an arbitrary machine state ----
        let n: usize = kani::any();                  // program length
        kani::assume(n >= 1 && n <= 1000);
        let mut marks: [usize; 4] = kani::any();     // statement start addresses, ascending; the first statement starts at 0
        let n_marks: usize = %(n_marks)d;            // concrete per instance: a binary search over a table of symbolic length does not finish
        kani::assume(marks[0] == 0);
        let mut k = 1usize;
        while k < 4 { if k < n_marks { kani::assume(marks[k - 1] < marks[k] && marks[k] < n); } else { marks[k] = 0; } k += 1; }
        let pc: usize = kani::any();
        // every instruction belongs to a statement that is followed by a marked one (the generator marks the final Halt / PopRet)
        kani::assume(pc < n && pc <= marks[n_marks - 1]);
        let mut s = VkState { pc, halted: false, handler: kani::any(), handler_at: kani::any(), err: None, pending: None,
                              gosub: kani::any(), gosub_depth: kani::any(), ret: kani::any(), ret_depth: kani::any(),
                              calls: kani::any(), call_depth: %(call_depth)d, activations: kani::any(), failed: None };
        kani::assume(s.handler <= 2 && s.handler_at < n && s.gosub_depth <= 3 && s.ret_depth <= 3 && s.activations <= 6);
        let mut k = 0usize;
        while k < VK_DEPTH { kani::assume(s.gosub[k] < n && s.ret[k] <= n); k += 1; }
        kani::assume(s.calls[0] >= 1 && s.calls[1] >= 1 && s.calls[2] >= 1);      // rows start at 1
        if kani::any() { let c: i32 = kani::any(); kani::assume(c > 0 && c < 100); s.err = Some(c); }
        if kani::any() {
            // an error is waiting for RESUME: it happened inside the marked program, and the handler was entered
            let a: usize = kani::any();
            kani::assume(a < n && a <= marks[n_marks - 1] && s.activations >= 1);
            s.pending = Some(a);
        }
        // ---- any control instruction ----
        let kind: u8 = kani::any();
        let t: usize = kani::any();
        kani::assume(%(kinds)s && t < n);
        if kind == 14 { kani::assume(s.call_depth >= 1 && s.activations >= 1); }     // PopStack is only generated after its PushStack
        if kind == 16 { kani::assume(s.ret_depth >= 1); }                            // PopRet only after its PushRet
        let row: u32 = kani::any();
        kani::assume(row >= 1);
        let want = vk_reference_step(&s, kind, t, row, &marks, n_marks);

        // ---- the same state in the real data structures ----
        let mut vm = VkVm {
            context: VkActivations { depth: s.activations },
            return_address_stack: VkStack { data: s.ret, n: s.ret_depth },
            go_sub_address_stack: VkStack { data: s.gosub, n: s.gosub_depth },
            stacktrace: Vec::with_capacity(4),
            last_error_address: s.pending, last_error_code: s.err,
        };
        let mut k = 0usize;
        while k < 2 { if k < s.call_depth { vm.stacktrace.push(Position::new(s.calls[k], 1)); } k += 1; }
        let marks_v: Vec<usize> = marks[..%(n_marks)d].to_vec();
        let ctx = InterpretOneContext {
            halt: false,
            error_handler: match s.handler { 0 => ErrorHandler::None, 1 => ErrorHandler::Next, _ => ErrorHandler::Address(s.handler_at) },
            opt_next_index: None,
            nearest_statement_finder: NearestStatementFinder::new(marks_v),
        };
        let program = VkProgram { at_pc: vk_any_instruction(kind, t).at_pos(Position::new(row, 1)), n };
        let r = vm.vk_one_iteration(&program, ctx, pc);
        std::mem::forget(program);

        // ---- the successor state is the one the property prescribes ----
        match r {
            Ok((next, ctx)) => {
                assert!(want.failed.is_none());
                assert!(ctx.halt == want.halted);
                if !want.halted { assert!(next == want.pc); }
                assert!(ctx.opt_next_index.is_none());
                let h = match ctx.error_handler { ErrorHandler::None => (0u8, 0usize), ErrorHandler::Next => (1, 0), ErrorHandler::Address(a) => (2, a) };
                assert!(h.0 == want.handler && (h.0 != 2 || h.1 == want.handler_at));
                std::mem::forget(ctx);
            }
            Err(e) => {
                match want.failed {
                    None => assert!(false),
                    Some((code, at_row)) => {
                        // the error ends the program and is reported with its code, its position, then the active call sites, innermost first
                        assert!(e.err().get_code() == code);
                        let tr = crate::error_envelope::%(mod)s::vk_trace(&e);
                        assert!(tr.len() == 1 + s.call_depth);
                        assert!(tr[0] == Position::new(at_row, 1));
                        let mut j = 0usize;
                        while j < 2 { if j < s.call_depth { assert!(tr[1 + j] == Position::new(s.calls[j], 1)); } j += 1; }
                    }
                }
                std::mem::forget(e);
            }
        }
        // ERR, the pending error, the GOSUB history, the return addresses, the call sites and the activation count
        assert!(vm.last_error_code == want.err);
        assert!(vm.last_error_address == want.pending);
        assert!(vm.go_sub_address_stack.n == want.gosub_depth && vm.return_address_stack.n == want.ret_depth);
        let mut k = 0usize;
        while k < VK_DEPTH {
            if k < want.gosub_depth { assert!(vm.go_sub_address_stack.data[k] == want.gosub[k]); }
            if k < want.ret_depth { assert!(vm.return_address_stack.data[k] == want.ret[k]); }
            k += 1;
        }
        assert!(vm.context.depth == want.activations);
        if want.failed.is_none() {
            assert!(vm.stacktrace.len() == want.call_depth);
            let mut j = 0usize;
            while j < 3 { if j < want.call_depth { assert!(vm.stacktrace[j] == Position::new(want.calls[j], 1)); } j += 1; }
        }
        std::mem::forget(vm);
"""

TRACE_HELPER = """
    /// the positions carried by an error: the failing statement, then the call sites
    pub fn vk_trace<T>(e: &ErrorEnvelope<T>) -> &Vec<Position> { &e.1 }
"""

FUNCS = ["rusty_basic::interpreter::main::Interpreter::interpret (text, sliced: the body of the fetch-execute loop with the error dispatch)",
         "rusty_basic::interpreter::main::Interpreter::interpret_one (text, sliced: arms %s)" % ", ".join(a.split("::")[1] for a in ARMS),
         "rusty_basic::interpreter::main::Interpreter::take_last_error_address (text, sliced)",
         "rusty_basic::interpreter::main::NearestStatementFinder::{new, find_current, find_next}",
         "rusty_basic::error_envelope::{WithErrAt, WithStacktrace, ErrorEnvelope::appen_draining_stacktrace}",
         "rusty_basic::interpreter::error::RuntimeError::get_code"]

STUB_NOTE = ("Instruction -> an enum with the control variants only (same names and payload types); Interpreter -> VkVm (same field names for the GOSUB / "
             "return-address / call-site stacks and the pending error; Context -> an activation counter; GOSUB and return-address stacks array-backed); "
             "the program -> the instruction under the program counter; every non-control arm of interpret_one -> assume(false)")

GROUPS = {
    # name: (instruction kinds, description, depth of the call-site stack - concrete per instance: appending a call-site stack of symbolic
    # length to the error reallocates a heap object of symbolic size)
    "gosub": ("kind <= 4", "HALT, GOSUB, RETURN, RETURN label, GOTO", 0),
    "errors": ("(kind == 0 || (kind >= 4 && kind <= 12))", "HALT, GOTO, two failing statements, ON ERROR GOTO / RESUME NEXT / GOTO 0, RESUME, RESUME NEXT, RESUME label", 0),
    "calls0": ("(kind == 5 || kind == 2 || kind >= 13) && kind <= 16", "a failing statement, RETURN, PushStack, PopStack, PushRet, PopRet", 0),
    "calls1": ("(kind == 5 || kind == 2 || kind >= 13) && kind <= 16", "a failing statement, RETURN, PushStack, PopStack, PushRet, PopRet", 1),
    "calls2": ("(kind == 5 || kind == 2 || kind >= 13) && kind <= 16", "a failing statement, RETURN, PushStack, PopStack, PushRet, PopRet", 2),
}


def add(b, prefix, groups, tier="quick"):
    main = b.file(MAIN, "rusty_basic", "interpreter::main",
                  uses="    use crate::instruction_generator::AddressOrLabel;\n    use rusty_common::AtPos;\n")
    ee = b.file("rusty_basic/src/error_envelope.rs", "rusty_basic", "error_envelope")
    b.helper(ee, TRACE_HELPER)
    b.helper(main, ENV)
    b.helper(main, sliced())
    b.helper(main, REF)
    for g, n_marks in groups:
        cond, what, call_depth = GROUPS[g]
        b.add(main, "%s_vm_step_%s_marks%d" % (prefix, g, n_marks), STEP % {"kinds": cond, "mod": b.module, "call_depth": call_depth, "n_marks": n_marks},
              unwind=7, tier=tier, cost=300,
              bounds="one iteration of the fetch-execute loop on any of {%s} with any target, from ANY machine state: program length <= 1000, any "
                     "ascending statement-address table of %d marks, GOSUB and return-address stacks of depth 0..3 with any contents, call-site stack "
                     "of depth %d, any handler setting, ERR set or not, an error pending or not (an inductive step: covers runs of any length "
                     "within these depths)" % (what, n_marks, call_depth),
              functions=FUNCS,
              basic="ON ERROR GOTO H\nGOSUB S\nPRINT \"back\"\nEND\nS: X = 1 / 0\nRETURN\nH: RESUME NEXT")
