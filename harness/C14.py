"""C14 - a CONST has the value and type its expression would have at run time: the operator dispatch of the constant folder
against the operator handlers of the VM (DESIGN 4/C14).

`ConstEvaluator::eval_const` walks the expression tree (not symbolically executable: the merged `Variant` results drag in the
recursive drop glue).  What decides the *value* of `CONST c = a op b` is the inner `match *op { .. }` of its BinaryExpression arm
(and of its UnaryExpression arm); what decides the value of `PRINT a op b` is the VM's handler for the operator's instruction
(`handlers::math`, `handlers::comparison`, `handlers::logical`, each a function over the registers A and B).  Both texts are cut
out of /repo's current sources (harness/slicer.py) and compiled unchanged - the handlers against a two-register stand-in for the
interpreter - and compared for every pair of numeric operand values.
"""
from vklib import Builder
import re
import slicer

HOST = "rusty_basic/src/interpreter/handlers/logical.rs"
FOLDER = "rusty_linter/src/core/const_value_resolver.rs"
H = "rusty_basic/src/interpreter/handlers/%s.rs"

ENV = """
    /// the part of the interpreter the operator handlers use: the registers A and B
    pub struct VkRegisters { pub a: Variant, pub b: Variant }
    impl VkRegisters {
        pub fn get_a(&self) -> Variant { vk_copy(&self.a) }
        pub fn get_b(&self) -> Variant { vk_copy(&self.b) }
        pub fn set_a(&mut self, v: Variant) { let old = std::mem::replace(&mut self.a, v); std::mem::forget(old); }
    }
    /// a numeric Variant copied without Variant's clone glue
    pub fn vk_copy(v: &Variant) -> Variant {
        match v {
            Variant::VInteger(i) => Variant::VInteger(*i), Variant::VLong(l) => Variant::VLong(*l),
            Variant::VSingle(f) => Variant::VSingle(*f), Variant::VDouble(d) => Variant::VDouble(*d),
            _ => { kani::assume(false); Variant::VInteger(0) }
        }
    }
    /// shadows the interpreter trait inside this module: the handlers below are generic over it, unchanged
    pub trait InterpreterTrait {
        fn registers(&self) -> &VkRegisters;
        fn registers_mut(&mut self) -> &mut VkRegisters;
    }
    pub struct VkVm { pub r: VkRegisters }
    impl InterpreterTrait for VkVm {
        fn registers(&self) -> &VkRegisters { &self.r }
        fn registers_mut(&mut self) -> &mut VkRegisters { &mut self.r }
    }
    /// an operand of the constant expression: already evaluated (the tree walk is outside the claim)
    pub struct VkOperand { pub value: Variant }
    impl HasPos for VkOperand { fn pos(&self) -> Position { Position::new(1, 1) } }
    pub struct VkFolder;
    impl VkFolder { pub fn eval_const(&self, x: &VkOperand) -> Result<Variant, LintErrorPos> { Ok(vk_copy(&x.value)) } }
"""

GEN = {
    "I": "let x%(k)s: i16 = kani::any(); let v%(k)s = Variant::VInteger(x%(k)s as i32);",
    "L": "let x%(k)s: i32 = kani::any(); let v%(k)s = Variant::VLong(x%(k)s as i64);",
    "S": "let x%(k)s: f32 = kani::any(); kani::assume(x%(k)s.is_finite()); let v%(k)s = Variant::VSingle(x%(k)s);",
    "D": "let x%(k)s: f64 = kani::any(); kani::assume(x%(k)s.is_finite()); let v%(k)s = Variant::VDouble(x%(k)s);",
}

OPS = [("Plus", "math", "plus"), ("Minus", "math", "minus"), ("Multiply", "math", "multiply"), ("Divide", "math", "divide"), ("Modulo", "math", "modulo"),
       ("Less", "comparison", "less"), ("LessOrEqual", "comparison", "less_or_equal"), ("Equal", "comparison", "equal"),
       ("GreaterOrEqual", "comparison", "greater_or_equal"), ("Greater", "comparison", "greater"), ("NotEqual", "comparison", "not_equal"),
       ("And", "logical", "and"), ("Or", "logical", "or")]
UNARY = [("Minus", "negate_a"), ("Not", "not_a")]

SAME = """
    /// same tag and same value (floats: same bits), or the same class of error
    pub fn vk_same(folded: Result<Variant, LintErrorPos>, ran: Result<(), RuntimeError>, a_after: &Variant) {
        let folded = match folded {
            Ok(v) => Ok(v),
            Err(e) => { let k = match &e.element { LintError::Overflow => VariantError::Overflow, LintError::DivisionByZero => VariantError::DivisionByZero,
                                                   LintError::TypeMismatch => VariantError::TypeMismatch, _ => { assert!(false); VariantError::TypeMismatch } };
                        std::mem::forget(e); Err(k) }
        };
        match folded {
            Ok(c) => {
                match ran { Ok(()) => {}, Err(e) => { std::mem::forget(e); assert!(false); } }        // a constant the checker accepts: the run-time expression has a value too
                let same = match (&c, a_after) {
                    (Variant::VInteger(x), Variant::VInteger(y)) => x == y,
                    (Variant::VLong(x), Variant::VLong(y)) => x == y,
                    (Variant::VSingle(x), Variant::VSingle(y)) => x.to_bits() == y.to_bits(),
                    (Variant::VDouble(x), Variant::VDouble(y)) => x.to_bits() == y.to_bits(),
                    _ => false,
                };
                assert!(same);                                                                             // same value, same type
                std::mem::forget(c);
            }
            // rejected for overflow / division by zero exactly when evaluating it at run time raises that error
            Err(VariantError::Overflow) => match ran { Err(RuntimeError::Overflow) => {}, Err(e) => { std::mem::forget(e); assert!(false); }, Ok(()) => assert!(false) },
            Err(VariantError::DivisionByZero) => match ran { Err(RuntimeError::DivisionByZero) => {}, Err(e) => { std::mem::forget(e); assert!(false); }, Ok(()) => assert!(false) },
            Err(VariantError::TypeMismatch) => match ran { Err(RuntimeError::TypeMismatch) => {}, Err(e) => { std::mem::forget(e); assert!(false); }, Ok(()) => assert!(false) },
        }
    }
"""



# ---- the same comparison with the operations on values abstracted: every Variant method is an uninterpreted function of its operands ----
ABS_ENV = """
    pub mod vk_abs {
        use super::super::RuntimeError;
        use rusty_variant::VariantError;
        use rusty_linter::core::{LintError, LintErrorPos};
        use rusty_common::{AtPos, HasPos, Position};
        use rusty_parser::{Operator, UnaryOperator, TypeQualifier};
        use std::cmp::Ordering;
        /// a value: its type tag (0 INTEGER, 1 LONG, 2 SINGLE, 3 DOUBLE) and an identity.  The operations below are uninterpreted: what they
        /// return depends only on which operation is applied to which operands, and is chosen by the solver.
        #[derive(Clone, Copy, PartialEq, Eq, Debug)]
        pub struct Variant { pub tag: u8, pub id: u32 }
        /// the table of the uninterpreted functions for this run: result of the expected application, and the results of the INTEGER casts
        pub struct VkTable { pub op: u8, pub a: Variant, pub b: Variant, pub result: Result<Variant, VariantError>, pub ordering: Result<Ordering, VariantError>,
                             pub cast_a: Result<Variant, VariantError>, pub cast_b: Result<Variant, VariantError>, pub calls: u32 }
        pub static mut VK_T: Option<VkTable> = None;
        fn vk_err_copy(e: &VariantError) -> VariantError { match e { VariantError::Overflow => VariantError::Overflow, VariantError::DivisionByZero => VariantError::DivisionByZero, VariantError::TypeMismatch => VariantError::TypeMismatch } }
        fn vk_res_copy(r: &Result<Variant, VariantError>) -> Result<Variant, VariantError> { match r { Ok(v) => Ok(*v), Err(e) => Err(vk_err_copy(e)) } }
        /// op applied to (a, b): the table's result if these are the expected operation and operands, otherwise a value nothing else equals
        fn vk_apply(op: u8, a: Variant, b: Variant) -> Result<Variant, VariantError> {
            let t = unsafe { VK_T.as_mut().unwrap() };
            t.calls += 1;
            if op == t.op && a == t.a && b == t.b { vk_res_copy(&t.result) } else { Ok(Variant { tag: 9, id: 100000 + (op as u32) * 10000 + a.id * 100 + b.id }) }
        }
        impl Variant {
            pub fn plus(self, other: Self) -> Result<Self, VariantError> { vk_apply(0, self, other) }
            pub fn minus(self, other: Self) -> Result<Self, VariantError> { vk_apply(1, self, other) }
            pub fn multiply(self, other: Self) -> Result<Self, VariantError> { vk_apply(2, self, other) }
            pub fn divide(self, other: Self) -> Result<Self, VariantError> { vk_apply(3, self, other) }
            pub fn modulo(self, other: Self) -> Result<Self, VariantError> { vk_apply(4, self, other) }
            pub fn and(self, other: Self) -> Result<Self, VariantError> { vk_apply(5, self, other) }
            pub fn or(self, other: Self) -> Result<Self, VariantError> { vk_apply(6, self, other) }
            pub fn negate(self) -> Result<Self, VariantError> { vk_apply(7, self, self) }
            pub fn unary_not(self) -> Result<Self, VariantError> { vk_apply(8, self, self) }
            pub fn try_cmp(&self, other: &Self) -> Result<Ordering, VariantError> {
                let t = unsafe { VK_T.as_mut().unwrap() };
                t.calls += 1;
                if *self == t.a && *other == t.b { match &t.ordering { Ok(o) => Ok(*o), Err(e) => Err(vk_err_copy(e)) } } else { Err(VariantError::TypeMismatch) }
            }
            /// CastVariant::cast: the identity on a value that already has the type, otherwise the table's cast of that operand
            pub fn cast(self, q: TypeQualifier) -> Result<Self, LintError> {
                let t = unsafe { VK_T.as_mut().unwrap() };
                assert!(q == TypeQualifier::PercentInteger);
                let r = if self.tag == 0 { Ok(self) } else if self == t.a { vk_res_copy(&t.cast_a) } else if self == t.b { vk_res_copy(&t.cast_b) } else { Ok(Variant { tag: 9, id: 2000 }) };
                r.map_err(LintError::from)
            }
        }
        impl From<bool> for Variant { fn from(b: bool) -> Self { Variant { tag: 0, id: if b { 77 } else { 70 } } } }
        pub struct VkRegisters { pub a: Variant, pub b: Variant }
        impl VkRegisters {
            pub fn get_a(&self) -> Variant { self.a }
            pub fn get_b(&self) -> Variant { self.b }
            pub fn set_a(&mut self, v: Variant) { self.a = v; }
        }
        pub trait InterpreterTrait {
            fn registers(&self) -> &VkRegisters;
            fn registers_mut(&mut self) -> &mut VkRegisters;
        }
        pub struct VkVm { pub r: VkRegisters }
        impl InterpreterTrait for VkVm {
            fn registers(&self) -> &VkRegisters { &self.r }
            fn registers_mut(&mut self) -> &mut VkRegisters { &mut self.r }
        }
        pub struct VkOperand { pub value: Variant }
        impl HasPos for VkOperand { fn pos(&self) -> Position { Position::new(1, 1) } }
        pub struct VkFolder;
        impl VkFolder { pub fn eval_const(&self, x: &VkOperand) -> Result<Variant, LintErrorPos> { Ok(x.value) } }
%(sliced)s

        pub fn vk_any_result() -> Result<Variant, VariantError> {
            let k: u8 = kani::any();
            match k { 0 => Err(VariantError::Overflow), 1 => Err(VariantError::DivisionByZero), 2 => Err(VariantError::TypeMismatch),
                      _ => Ok(Variant { tag: kani::any::<u8>() & 3, id: 500 }) }
        }
        pub fn vk_same(folded: Result<Variant, LintErrorPos>, ran: Result<(), RuntimeError>, a_after: Variant) {
            let folded = match folded {
                Ok(v) => Ok(v),
                Err(e) => { let k = match &e.element { LintError::Overflow => VariantError::Overflow, LintError::DivisionByZero => VariantError::DivisionByZero,
                                                       LintError::TypeMismatch => VariantError::TypeMismatch, _ => { assert!(false); VariantError::TypeMismatch } };
                            std::mem::forget(e); Err(k) }
            };
            match folded {
                Ok(c) => { match ran { Ok(()) => {}, Err(e) => { std::mem::forget(e); assert!(false); } } assert!(c == a_after); }
                Err(VariantError::Overflow) => match ran { Err(RuntimeError::Overflow) => {}, Err(e) => { std::mem::forget(e); assert!(false); }, Ok(()) => assert!(false) },
                Err(VariantError::DivisionByZero) => match ran { Err(RuntimeError::DivisionByZero) => {}, Err(e) => { std::mem::forget(e); assert!(false); }, Ok(()) => assert!(false) },
                Err(VariantError::TypeMismatch) => match ran { Err(RuntimeError::TypeMismatch) => {}, Err(e) => { std::mem::forget(e); assert!(false); }, Ok(()) => assert!(false) },
            }
        }
        pub fn vk_setup(op: u8, ta: u8, tb: u8) -> (Variant, Variant) {
            let a = Variant { tag: ta, id: 1 };
            let b = Variant { tag: tb, id: 2 };
            let ord: u8 = kani::any();
            let ordering = match ord { 0 => Ok(Ordering::Less), 1 => Ok(Ordering::Equal), 2 => Ok(Ordering::Greater), _ => Err(VariantError::TypeMismatch) };
            let ca = match kani::any::<u8>() { 0 => Err(VariantError::Overflow), _ => Ok(Variant { tag: 0, id: 11 }) };
            let cb = match kani::any::<u8>() { 0 => Err(VariantError::Overflow), _ => Ok(Variant { tag: 0, id: 12 }) };
            unsafe { VK_T = Some(VkTable { op, a, b, result: vk_any_result(), ordering, cast_a: ca, cast_b: cb, calls: 0 }); }
            (a, b)
        }
    }
"""


def sliced():
    src = slicer.read(FOLDER)
    _, impl = slicer.block(src, r"impl<S>\s+ConstEvaluator<ExpressionPos>\s+for\s+S")
    _, body = slicer.function(impl, "eval_const")
    arms = slicer.match_arms(body, "expression")
    fold_bin = fold_un = None
    for pattern, arm in arms:
        if pattern.startswith("Expression::BinaryExpression("):
            if not re.match(r"Expression::BinaryExpression\(\s*op\s*,\s*left\s*,\s*right\s*,\s*_\s*\)", pattern):
                raise slicer.SliceError("unexpected pattern of the BinaryExpression arm: " + pattern)
            fold_bin = arm
        if pattern.startswith("Expression::UnaryExpression("):
            if not re.match(r"Expression::UnaryExpression\(\s*op\s*,\s*child\s*\)", pattern):
                raise slicer.SliceError("unexpected pattern of the UnaryExpression arm: " + pattern)
            fold_un = arm
    if fold_bin is None or fold_un is None:
        raise slicer.SliceError("BinaryExpression / UnaryExpression arm of eval_const not found")
    # free functions of the file that the two arms call (a refactoring may move part of the dispatch into helpers): sliced along
    top = [n for n in slicer.fn_names(src) if n not in ("eval_const", "get_const_value")]
    called = set(re.findall(r"\b([A-Za-z_][A-Za-z0-9_]*)\s*\(", fold_bin + fold_un))
    folder_helpers = [slicer.function_text(src, n) for n in slicer.closure(src, [n for n in top if n in called], exclude=("eval_const", "get_const_value"))]
    parts = ["    // ---- text of rusty_linter's const_value_resolver.rs: the BinaryExpression and UnaryExpression arms of eval_const, unchanged ----",
             "    impl VkFolder {\n        pub fn vk_fold(&self, op: &Operator, left: &VkOperand, right: &VkOperand) -> Result<Variant, LintErrorPos> %s\n"
             "        pub fn vk_fold_unary(&self, op: &UnaryOperator, child: &VkOperand) -> Result<Variant, LintErrorPos> %s\n    }" % (fold_bin, fold_un),
             "\n\n".join("    " + t for t in folder_helpers),
             "    // ---- text of the VM's operator handlers (handlers/math.rs, comparison.rs, logical.rs) and of the helpers they call, unchanged ----"]
    for mod, roots in (("math", ["plus", "minus", "multiply", "divide", "modulo"]),
                       ("comparison", ["equal", "not_equal", "less", "greater", "less_or_equal", "greater_or_equal"]),
                       ("logical", ["and", "or", "negate_a", "not_a"])):
        hsrc = slicer.read(H % mod)
        hsrc = hsrc[:hsrc.index("#[cfg(test)]")] if "#[cfg(test)]" in hsrc else hsrc
        parts.append(slicer.functions_text(hsrc, slicer.closure(hsrc, roots)))
    return "\n\n".join(parts)


def spec(tier, seed):
    b = Builder("C14")
    host = b.file(HOST, "rusty_basic", "interpreter::handlers::logical",
                  uses="    use rusty_variant::{Variant, VariantError};\n    use rusty_parser::{Operator, UnaryOperator};\n    use std::cmp::Ordering;\n    use rusty_linter::core::{LintError, LintErrorPos};\n    use rusty_common::{AtPos, HasPos, Position};\n")
    notes = []
    quick_pairs = [("I", "I"), ("I", "D"), ("S", "L")]
    try:
        b.helper(host, ENV)
        b.helper(host, sliced())
        b.helper(host, SAME)
        for op, _mod, fn in OPS:
            for x in "ILSD":
                for y in "ILSD":
                    quick = (x, y) in quick_pairs
                    floats = (x in "SD") + (y in "SD")
                    # two copies of the same float / bit-vector circuit: CaDiCaL does not finish in 600 s for these
                    hard = op in ("Modulo", "Divide", "And", "Or") or (op == "Multiply" and floats == 2) or (op == "Minus" and floats == 1)
                    b.add(host, "vk_c14_%s_%s_%s" % (fn, x, y), """
        %(ga)s
        %(gb)s
        let folded = VkFolder.vk_fold(&Operator::%(op)s, &VkOperand { value: vk_copy(&va) }, &VkOperand { value: vk_copy(&vb) });
        let mut vm = VkVm { r: VkRegisters { a: va, b: vb } };
        let ran = %(fn)s(&mut vm);
        vk_same(folded, ran, &vm.r.a);
        std::mem::forget(vm);
        """ % {"ga": GEN[x] % {"k": "a"}, "gb": GEN[y] % {"k": "b"}, "op": op, "fn": fn},
                          unwind=18, tier="quick" if quick and not hard else "thorough",
                          core=not hard, exhaustive=True, cost=200 if hard else 20,
                          bounds="%s on every %s left and %s right operand (full width)" % (op, x, y),
                          functions=["rusty_linter::core::const_value_resolver::ConstEvaluator::eval_const (text, sliced: operator dispatch of the BinaryExpression arm)",
                                     "rusty_basic::interpreter::handlers::%s::%s (text, sliced)" % (_mod, fn)],
                          basic="CONST C = 3& AND 1\nPRINT C\nPRINT 3& AND 1")
        # the same agreement with the operations on values uninterpreted: which method, on which operands, after which conversions
        text = sliced()
        text_pub = re.sub(r"(?m)^(\s*)fn ", r"\1pub fn ", text)        # the nested module's items are used from the harness functions
        b.helper(host, ABS_ENV % {"sliced": "\n".join("    " + l for l in text_pub.splitlines())})
        opcode = {"Plus": 0, "Minus": 1, "Multiply": 2, "Divide": 3, "Modulo": 4, "And": 5, "Or": 6}
        for op, _mod, fn in OPS:
            b.add(host, "vk_c14_dispatch_%s" % fn, """
        let ta: u8 = kani::any::<u8>() & 3;
        let tb: u8 = kani::any::<u8>() & 3;
        let (a, b) = vk_abs::vk_setup(%(code)d, ta, tb);
        let folded = vk_abs::VkFolder.vk_fold(&Operator::%(op)s, &vk_abs::VkOperand { value: a }, &vk_abs::VkOperand { value: b });
        let mut vm = vk_abs::VkVm { r: vk_abs::VkRegisters { a, b } };
        let ran = vk_abs::%(fn)s(&mut vm);
        vk_abs::vk_same(folded, ran, vm.r.a);
        """ % {"code": opcode.get(op, 99), "op": op, "fn": fn}, unwind=4, tier="quick", exhaustive=True, cost=15,
                  bounds="%s on operands of any of the 16 numeric type pairs, for every behaviour of the operations on values (uninterpreted: any result or "
                         "error for the application, any ordering, any outcome of the conversions to INTEGER)" % op,
                  functions=["rusty_linter::core::const_value_resolver::ConstEvaluator::eval_const (text, sliced: operator dispatch of the BinaryExpression arm)",
                             "rusty_basic::interpreter::handlers::%s::%s (text, sliced)" % (_mod, fn)],
                  basic="CONST C = 3& AND 1\nPRINT C\nPRINT 3& AND 1")
        for op, fn in UNARY:
            b.add(host, "vk_c14_dispatch_%s" % fn, """
        let ta: u8 = kani::any::<u8>() & 3;
        let (a, _b) = vk_abs::vk_setup(%(code)d, ta, ta);
        unsafe { vk_abs::VK_T.as_mut().unwrap().b = a; }
        let folded = vk_abs::VkFolder.vk_fold_unary(&UnaryOperator::%(op)s, &vk_abs::VkOperand { value: a });
        let mut vm = vk_abs::VkVm { r: vk_abs::VkRegisters { a, b: a } };
        let ran = vk_abs::%(fn)s(&mut vm);
        vk_abs::vk_same(folded, ran, vm.r.a);
        """ % {"code": 7 if op == "Minus" else 8, "op": op, "fn": fn}, unwind=4, tier="quick", exhaustive=True, cost=10,
                  bounds="unary %s on an operand of any numeric type, for every behaviour of the operation (uninterpreted)" % op,
                  functions=["rusty_linter::core::const_value_resolver::ConstEvaluator::eval_const (text, sliced: operator dispatch of the UnaryExpression arm)",
                             "rusty_basic::interpreter::handlers::logical::%s (text, sliced)" % fn])
        for op, fn in UNARY:
            for x in "ILSD":
                b.add(host, "vk_c14_%s_%s" % (fn, x), """
        %(ga)s
        let folded = VkFolder.vk_fold_unary(&UnaryOperator::%(op)s, &VkOperand { value: vk_copy(&va) });
        let mut vm = VkVm { r: VkRegisters { a: va, b: Variant::VInteger(0) } };
        let ran = %(fn)s(&mut vm);
        vk_same(folded, ran, &vm.r.a);
        std::mem::forget(vm);
        """ % {"ga": GEN[x] % {"k": "a"}, "op": op, "fn": fn}, unwind=18, tier="quick", exhaustive=True, cost=15,
                      bounds="unary %s on every %s operand (full width)" % (op, x),
                      functions=["rusty_linter::core::const_value_resolver::ConstEvaluator::eval_const (text, sliced: operator dispatch of the UnaryExpression arm)",
                                 "rusty_basic::interpreter::handlers::logical::%s (text, sliced)" % fn])
    except slicer.SliceError as e:
        notes.append("the constant folder / the operator handlers could not be sliced from the current tree: %s" % e)
    return b.build(
        tier,
        notes=notes,
        bounds="values full width; per operator the operand type pairs (INTEGER, INTEGER), (INTEGER, DOUBLE), (SINGLE, LONG) quick, all 16 thorough; "
               "both unary operators on all four numeric types",
        outside="the tree walk of eval_const, constants referring to earlier constants, the conversion to the constant's suffix type, the two evaluation sites "
                "(pre-linter and converter), the replacement of uses by literals, string operands (Kani 0.68 loses a String inside Variant, DESIGN 1.4)",
        stubs=["the interpreter -> two registers (get_a / get_b copy a numeric Variant, set_a stores); the handlers' generic parameter T: InterpreterTrait is "
               "resolved against a trait of that name with registers() / registers_mut() only (the sliced texts are compiled unchanged)"],
        assumptions=["operands are valid values of their type (finite floats, INTEGER / LONG in range), C06"],
    )
