"""C09 - letter case (and line endings) never change meaning: the identity primitives (DESIGN 4/C09)."""
import os, re
from vklib import Builder

REPO = os.environ.get("VERIF_REPO", "/repo")

HELP = """
    pub fn vk_fold(b: u8) -> u8 { if b >= b'a' && b <= b'z' { b - 32 } else { b } }

    /// reference: lexicographic order of the case-folded bytes
    pub fn vk_cmp(a: &[u8], c: &[u8]) -> Ordering {
        let mut i = 0usize;
        while i < a.len() && i < c.len() {
            let (x, y) = (vk_fold(a[i]), vk_fold(c[i]));
            if x < y { return Ordering::Less; }
            if x > y { return Ordering::Greater; }
            i += 1;
        }
        if a.len() < c.len() { Ordering::Less } else if a.len() > c.len() { Ordering::Greater } else { Ordering::Equal }
    }

    /// records the byte stream fed to the hasher
    pub struct VkRec { pub buf: [u8; 48], pub n: usize }
    impl Hasher for VkRec {
        fn finish(&self) -> u64 { 0 }
        fn write(&mut self, bytes: &[u8]) {
            let mut k = 0usize;
            while k < bytes.len() {
                if self.n < 48 { self.buf[self.n] = bytes[k]; }
                self.n += 1;
                k += 1;
            }
        }
    }
"""


def keywords():
    src = open(os.path.join(REPO, "rusty_parser/src/core/keyword.rs")).read()
    m = re.search(r"keyword_enum!\(pub enum Keyword SORTED_KEYWORDS SORTED_KEYWORDS_STR \{(.*?)\}\);", src, re.S)
    names = [l.strip().rstrip(",") for l in m.group(1).splitlines() if l.strip() and not l.strip().startswith("//")]
    return names


def spec(tier, seed):
    b = Builder("C09")
    cu = b.file("rusty_common/src/case_insensitive_utils.rs", "rusty_common", "case_insensitive_utils")
    b.helper(cu, HELP)
    # names are at most 40 characters long (tokenizer limit): the length-40 instances cover every identifier
    for n, t in ((4, "quick"), (8, "quick"), (40, "quick")):
        b.add(cu, "vk_c09_cmp_str_reference_len%d" % n, """
        let a: [u8; %(n)d] = kani::any();
        let c: [u8; %(n)d] = kani::any();
        let la: usize = kani::any();
        let lc: usize = kani::any();
        kani::assume(la <= %(n)d && lc <= %(n)d);
        let (x, y) = (&a[..la], &c[..lc]);
        let got = cmp_bytes(x, y);
        assert!(got == vk_cmp(x, y));
        // equal exactly when the lengths agree and the bytes agree after ASCII case folding
        let mut same = la == lc;
        let mut k = 0usize;
        while k < %(n)d { if k < la && k < lc && vk_fold(a[k]) != vk_fold(c[k]) { same = false; } k += 1; }
        assert!((got == Ordering::Equal) == same);
        assert!(cmp_bytes(y, x) == got.reverse());
        """ % {"n": n}, unwind=n + 2, tier=t, cost=10 * n,
              bounds="every pair of byte strings of length 0..%d (any byte values)" % n,
              functions=["rusty_common::case_insensitive_utils::cmp_bytes", "rusty_common::cmp_str"])
        b.add(cu, "vk_c09_keyword_lemma_len%d" % n, """
        // comparing a table entry p with s gives the same answer for every letter-case spelling of s
        let p: [u8; %(n)d] = kani::any();
        let s: [u8; %(n)d] = kani::any();
        let lp: usize = kani::any();
        let ls: usize = kani::any();
        kani::assume(lp <= %(n)d && ls <= %(n)d);
        let mut t = s;
        let mut k = 0usize;
        while k < %(n)d {
            kani::assume(p[k] < 128 && s[k] < 128);
            let flip: bool = kani::any();
            if flip && s[k].is_ascii_alphabetic() { t[k] = s[k] ^ 0x20; }      // the other case of the same letter
            k += 1;
        }
        let ps = unsafe { std::str::from_utf8_unchecked(&p[..lp]) };
        let ss = unsafe { std::str::from_utf8_unchecked(&s[..ls]) };
        let ts = unsafe { std::str::from_utf8_unchecked(&t[..ls]) };
        assert!(cmp_str(ps, ss) == cmp_str(ps, ts));
        """ % {"n": n}, unwind=n + 2, tier=t, cost=10 * n,
              bounds="every table entry and every word of length 0..%d over 7-bit bytes, every re-spelling of the word's letters" % n,
              functions=["rusty_common::cmp_str"])
        b.add(cu, "vk_c09_hash_stream_len%d" % n, """
        // two spellings of the same name (they differ only in letter case) feed the hasher the same byte stream:
        // the Eq/Hash agreement every name table relies on
        let a: [u8; %(n)d] = kani::any();
        let mut c = a;
        let la: usize = kani::any();
        kani::assume(la <= %(n)d);
        let mut k = 0usize;
        while k < %(n)d {
            kani::assume(a[k] < 128);
            let flip: bool = kani::any();
            if flip && a[k].is_ascii_alphabetic() { c[k] = a[k] ^ 0x20; }
            k += 1;
        }
        let s = unsafe { std::str::from_utf8_unchecked(&a[..la]) };
        let t = unsafe { std::str::from_utf8_unchecked(&c[..la]) };
        assert!(cmp_str(s, t) == Ordering::Equal);
        let mut h = VkRec { buf: [0; 48], n: 0 };
        let mut g = VkRec { buf: [0; 48], n: 0 };
        hash_str(s, &mut h);
        hash_str(t, &mut g);
        assert!(h.n == g.n);
        let mut k = 0usize;
        while k < %(n)d { if k < h.n { assert!(h.buf[k] == g.buf[k]); } k += 1; }
        // and the stream determines the name up to case: different names of the same length give different streams
        let d: [u8; %(n)d] = kani::any();
        let mut k = 0usize;
        let mut same = true;
        while k < %(n)d { kani::assume(d[k] < 128); if k < la && vk_fold(d[k]) != vk_fold(a[k]) { same = false; } k += 1; }
        if !same {
            let u = unsafe { std::str::from_utf8_unchecked(&d[..la]) };
            assert!(cmp_str(s, u) != Ordering::Equal);
        }
        """ % {"n": n}, unwind=n + 2, tier=t, cost=10 * n,
              bounds="every 7-bit string of length 0..%d and every re-spelling of its letters" % n,
              functions=["rusty_common::hash_str", "rusty_common::cmp_str"])

    cs = b.file("rusty_common/src/case_insensitive_string.rs", "rusty_common", "case_insensitive_string")
    b.add(cs, "vk_c09_eq_hash_agree", """
        let a: [u8; 3] = kani::any();
        let c: [u8; 3] = kani::any();
        let mut k = 0usize;
        while k < 3 { kani::assume(a[k] < 128 && c[k] < 128); k += 1; }
        let x = CaseInsensitiveString::from(unsafe { std::str::from_utf8_unchecked(&a) });
        let y = CaseInsensitiveString::from(unsafe { std::str::from_utf8_unchecked(&c) });
        let mut hx = crate::case_insensitive_utils::vk_c09::VkRec { buf: [0; 48], n: 0 };
        let mut hy = crate::case_insensitive_utils::vk_c09::VkRec { buf: [0; 48], n: 0 };
        x.hash(&mut hx);
        y.hash(&mut hy);
        if x == y {
            assert!(hx.n == hy.n);
            let mut k = 0usize;
            while k < 3 { assert!(hx.buf[k] == hy.buf[k]); k += 1; }
        }
        // equality is case-insensitive and nothing else
        let mut same = true;
        let mut k = 0usize;
        while k < 3 { if a[k].to_ascii_uppercase() != c[k].to_ascii_uppercase() { same = false; } k += 1; }
        assert!((x == y) == same);
        std::mem::forget(x);
        std::mem::forget(y);
        """, unwind=5, cost=40, bounds="every pair of 3-byte 7-bit strings",
          functions=["rusty_common::CaseInsensitiveString::eq", "rusty_common::CaseInsensitiveString::hash"])

    kw = b.file("rusty_parser/src/core/keyword.rs", "rusty_parser", "core::keyword")
    names = keywords()
    maxlen = max(len(k) for k in names)
    b.add(kw, "vk_c09_keyword_table_sorted", """
        assert!(SORTED_KEYWORDS.len() == SORTED_KEYWORDS_STR.len());
        let mut i = 1usize;
        while i < SORTED_KEYWORDS_STR.len() {
            // strictly increasing under the comparison the binary search uses
            assert!(cmp_str(SORTED_KEYWORDS_STR[i - 1], SORTED_KEYWORDS_STR[i]) == std::cmp::Ordering::Less);
            assert!(SORTED_KEYWORDS[i - 1] < SORTED_KEYWORDS[i]);
            i += 1;
        }
        """, unwind=max(len(names), maxlen) + 2, exhaustive=True, cost=30,
          bounds="all %d adjacent pairs of the keyword table" % (len(names) - 1),
          functions=["rusty_parser::Keyword::SORTED_KEYWORDS_STR (table)", "rusty_common::cmp_str"])
    # direct: a keyword in any letter case is recognised as that keyword (a seed-rotated sample in quick, all in thorough)
    step = 9
    picked = set(names[(seed + i * step) % len(names)] for i in range(6)) | {"As", "Function", "Rem"} & set(names)
    for i, k in enumerate(names):
        quick = k in picked
        b.add(kw, "vk_c09_keyword_%s_any_case" % k.lower(), """
        let mut w: [u8; %(n)d] = *b"%(up)s";
        let mut k = 0usize;
        while k < %(n)d { let lower: bool = kani::any(); if lower { w[k] = w[k].to_ascii_lowercase(); } k += 1; }
        let s = unsafe { std::str::from_utf8_unchecked(&w) };
        match Keyword::try_from(s) {
            Ok(got) => assert!(got == Keyword::%(name)s),
            Err(_) => assert!(false),
        }
        """ % {"n": len(k), "up": k.upper(), "name": k}, unwind=max(len(k), 8) + 3, tier="quick" if quick else "thorough",
              cost=15, bounds="all 2^%d letter-case spellings of %s" % (len(k), k.upper()),
              functions=["rusty_parser::Keyword::try_from"])

    tk = b.file("rusty_parser/src/tokens/any_token.rs", "rusty_parser", "tokens::any_token")
    b.add(tk, "vk_c09_char_classes", """
        let c: char = kani::any();
        // blanks are blank and tab; a line terminator is never part of a run of blanks (otherwise a trailing blank would
        // swallow the line break under some line-ending convention)
        assert!(is_whitespace(&' ') && is_whitespace(&'\\t'));
        if c == '\\r' || c == '\\n' { assert!(!is_whitespace(&c)); }
        if is_whitespace(&c) { assert!(!is_allowed_char_in_identifier(&c)); }
        // the character classes of identifiers and keyword boundaries do not depend on letter case
        if c.is_ascii_alphabetic() {
            let other = if c.is_ascii_uppercase() { c.to_ascii_lowercase() } else { c.to_ascii_uppercase() };
            assert!(is_allowed_char_in_identifier(&c) && is_allowed_char_in_identifier(&other));
            assert!(is_allowed_char_after_keyword(c) == is_allowed_char_after_keyword(other));
        }
        """, unwind=2, exhaustive=True, cost=5, bounds="every char",
          functions=["rusty_parser::tokens::any_token::is_whitespace", "rusty_parser::tokens::any_token::is_allowed_char_in_identifier",
                     "rusty_parser::tokens::any_token::is_allowed_char_after_keyword"])

    rc = b.file("rusty_parser/src/input/row_col_view.rs", "rusty_parser", "input::row_col_view")
    for n, t in ((4, "quick"), (6, "thorough")):
        b.add(rc, "vk_c09_line_endings_len%d" % n, """
        // CR, LF and CRLF each end exactly one line
        let sel: [u8; %(n)d] = kani::any();
        let mut chars: Vec<char> = Vec::with_capacity(%(n)d);
        let mut breaks = 0u32;
        let mut k = 0usize;
        while k < %(n)d {
            kani::assume(sel[k] < 3);
            chars.push(match sel[k] { 0 => 'x', 1 => '\\r', _ => '\\n' });
            // a line ends at LF, or at a CR that is not followed by LF
            if k > 0 && (sel[k - 1] == 2 || (sel[k - 1] == 1 && sel[k] != 2)) { breaks += 1; }
            k += 1;
        }
        let view = create_row_col_view(&chars);
        assert!(view.len() == %(n)d);
        assert!(view[%(n)d - 1].row() == 1 + breaks);
        std::mem::forget(view);
        std::mem::forget(chars);
        """ % {"n": n}, unwind=n + 2, tier=t, cost=10 * n,
              bounds="every text of exactly %d characters over {x, CR, LF}" % n,
              functions=["rusty_parser::input::row_col_view::create_row_col_view"])
    return b.build(
        tier,
        bounds="byte strings of every length 0..40 (the longest identifier the tokenizer admits); the whole keyword table; 9 keywords in every case (quick, seed-rotated) / all (thorough)",
        outside="blanks, colons, comments and program-level invariance (parser); DEFtype letter case is under C13",
        assumptions=["Keyword::try_from is a binary search with cmp_str over SORTED_KEYWORDS_STR (checked by the direct instances)"],
    )
