"""C10 - expressions group by standard precedence; &H/&O literals keep exact value and type (DESIGN 4/C10)."""
from vklib import Builder
import slicer

OPS = """
    pub fn vk_operator(k: u8) -> Operator {
        match k {
            0 => Operator::Less, 1 => Operator::LessOrEqual, 2 => Operator::Equal, 3 => Operator::GreaterOrEqual,
            4 => Operator::Greater, 5 => Operator::NotEqual, 6 => Operator::Plus, 7 => Operator::Minus,
            8 => Operator::Multiply, 9 => Operator::Divide, 10 => Operator::Modulo, 11 => Operator::And,
            _ => Operator::Or,
        }
    }
    /// standard BASIC precedence: * / over MOD over + - over relational over (NOT over) AND over OR
    pub fn vk_rank(op: Operator) -> u8 {
        match op {
            Operator::Multiply | Operator::Divide => 6,
            Operator::Modulo => 5,
            Operator::Plus | Operator::Minus => 4,
            Operator::Less | Operator::LessOrEqual | Operator::Equal | Operator::GreaterOrEqual | Operator::Greater
            | Operator::NotEqual => 3,
            Operator::And => 1,
            Operator::Or => 0,
        }
    }
    pub fn vk_leaf(v: i32) -> ExpressionPos {
        Expression::IntegerLiteral(v).at_pos(Position::new(1, 1))
    }
    pub fn vk_binary(op: Operator, l: ExpressionPos, r: ExpressionPos) -> ExpressionPos {
        Expression::BinaryExpression(op, Box::new(l), Box::new(r), ExpressionType::Unresolved).at_pos(Position::new(1, 1))
    }
"""


def digits_harness(b, rel, kind, n, tier):
    bits = 4 if kind == "hex" else 3
    base = 16 if kind == "hex" else 8
    b.add(rel, "vk_c10_%s_digits_%d" % (kind, n), """
        let d: [u8; %(n)d] = kani::any();
        let mut v: u64 = 0;
        let mut bv = BitVec::new();
        let mut k = 0usize;
        while k < %(n)d {
            kani::assume(d[k] < %(base)d);
            if k == 0 { kani::assume(d[0] != 0); }     // the scanner strips leading zeros
            v = v * %(base)d + d[k] as u64;
            bv.push_%(kind)s(d[k]);
            k += 1;
        }
        match bv.convert_to_int_or_long_expr() {
            Ok(BitVecIntOrLong::Int(i)) => {
                assert!(v <= 0xFFFF);
                assert!(i == (v as u16 as i16) as i32);          // 16-bit two's complement
            }
            Ok(BitVecIntOrLong::Long(l)) => {
                assert!(v > 0xFFFF && v <= 0xFFFF_FFFF);
                assert!(l == (v as u32 as i32) as i64);          // 32-bit two's complement
            }
            Err(_) => assert!(v > 0xFFFF_FFFF),
        }
        """ % {"n": n, "base": base, "kind": kind}, unwind=n * bits + 4, tier=tier, cost=5 + n * 3,
          bounds="every %s literal of exactly %d digits (first digit non-zero); unwind %d (checked)" % (kind, n, n * bits + 4),
          functions=["rusty_bit_vec::BitVec::push_" + kind, "rusty_bit_vec::BitVec::convert_to_int_or_long_expr",
                     "rusty_bit_vec::bits_to_i32", "rusty_bit_vec::bits_to_i64"])


def spec(tier, seed):
    b = Builder("C10")
    ty = b.file("rusty_parser/src/expr/types.rs", "rusty_parser", "expr::types")
    b.helper(ty, OPS)
    b.add(ty, "vk_c10_flip_binary_table", """
        let lk: u8 = kani::any();
        let rk: u8 = kani::any();
        kani::assume(lk < 13 && rk < 13);
        let (l, r) = (vk_operator(lk), vk_operator(rk));
        // the parser has built  x l (y r z)  and asks whether to regroup into  (x l y) r z
        let e = vk_binary(l, vk_leaf(1), vk_binary(r, vk_leaf(2), vk_leaf(3)));
        let flip = e.should_flip_binary();
        std::mem::forget(e);
        if vk_rank(l) > vk_rank(r) {
            assert!(flip);                    // the left operator binds tighter
        } else if vk_rank(l) < vk_rank(r) {
            assert!(!flip);
        } else if (l == Operator::And && r == Operator::And) || (l == Operator::Or && r == Operator::Or) {
            // both groupings evaluate identically: either answer is right
        } else {
            assert!(flip);                    // equal precedence groups left to right
        }
        // a right operand that is not a binary expression is never regrouped
        let e2 = vk_binary(l, vk_leaf(1), vk_leaf(2));
        assert!(!e2.should_flip_binary());
        std::mem::forget(e2);
        """, unwind=2, exhaustive=True, cost=10, bounds="all 13 x 13 operator pairs",
          functions=["rusty_parser::expr::types::ExpressionTrait::should_flip_binary", "rusty_parser::Expression::flip_multiply_plus",
                     "rusty_parser::Expression::flip_plus_minus", "rusty_parser::Expression::flip_multiply_divide",
                     "rusty_parser::Operator::is_arithmetic", "rusty_parser::Operator::is_relational", "rusty_parser::Operator::is_binary"],
          basic="PRINT 2 * 7 MOD 4   ' 2 in QBasic\nPRINT 3 > 2 > 1     ' 0 in QBasic\nPRINT 20 MOD 12 MOD 5  ' 3 in QBasic")
    b.add(ty, "vk_c10_flip_unary_table", """
        let rk: u8 = kani::any();
        kani::assume(rk < 13);
        let r = vk_operator(rk);
        // the parser has read  <unary> (y r z)
        let e = vk_binary(r, vk_leaf(2), vk_leaf(3));
        let minus = e.should_flip_unary(UnaryOperator::Minus);
        let not = e.should_flip_unary(UnaryOperator::Not);
        std::mem::forget(e);
        assert!(minus);                                   // unary minus binds tighter than every binary operator
        assert!(not == (vk_rank(r) < 2));                 // NOT binds tighter than AND / OR only
        let leaf = vk_leaf(5);
        assert!(!leaf.should_flip_unary(UnaryOperator::Minus) && !leaf.should_flip_unary(UnaryOperator::Not));
        std::mem::forget(leaf);
        """, unwind=2, exhaustive=True, cost=10, bounds="both unary operators x all 13 binary operators",
          functions=["rusty_parser::expr::types::ExpressionTrait::should_flip_unary"])
    b.add(ty, "vk_c10_flip_binary_once", """
        // one rotation:  x l (y r z)  ->  (x l y) r z  keeps the operands in order and swaps the roles of the operators
        let lk: u8 = kani::any();
        let rk: u8 = kani::any();
        kani::assume(lk < 13 && rk < 13);
        let (l, r) = (vk_operator(lk), vk_operator(rk));
        kani::assume(vk_rank(l) > vk_rank(r));            // then (x l y) is itself final: no further rotation inside
        let e = vk_binary(l, vk_leaf(1), vk_binary(r, vk_leaf(2), vk_leaf(3)));
        let f = e.flip_binary();
        match &f.element {
            Expression::BinaryExpression(top, left, right, _) => {
                assert!(*top == r);
                assert!(matches!(right.element, Expression::IntegerLiteral(3)));
                match &left.element {
                    Expression::BinaryExpression(inner, a, c, _) => {
                        assert!(*inner == l);
                        assert!(matches!(a.element, Expression::IntegerLiteral(1)));
                        assert!(matches!(c.element, Expression::IntegerLiteral(2)));
                    }
                    _ => assert!(false),
                }
            }
            _ => assert!(false),
        }
        std::mem::forget(f);
        """, unwind=3, cost=60, core=False, tier="thorough",
          bounds="all operator pairs with rank(l) > rank(r), literal leaves",
          functions=["rusty_parser::expr::types::ExpressionPosTrait::flip_binary", "rusty_parser::expr::types::ExpressionPosTrait::binary_expr"])

    # literal folding directly after a unary minus: exact value, narrowest type that holds it
    b.add(ty, "vk_c10_unary_minus_integer_literal", """
        let n: i32 = kani::any();
        kani::assume(n >= -32768 && n <= 32767);         // what an INTEGER literal (decimal, &H or &O) can hold
        let r = Expression::unary_minus(Expression::IntegerLiteral(n).at_pos(Position::new(1, 1)));
        match &r {
            Expression::IntegerLiteral(m) => assert!(*m == -n && *m >= -32768 && *m <= 32767),
            Expression::LongLiteral(m) => assert!(*m == -(n as i64) && (*m < -32768 || *m > 32767)),
            _ => assert!(false),
        }
        std::mem::forget(r);
        """, unwind=2, exhaustive=True, cost=20, bounds="every INTEGER literal value", functions=["rusty_parser::Expression::unary_minus"])
    b.add(ty, "vk_c10_unary_minus_long_literal", """
        let n: i64 = kani::any();
        kani::assume(n >= -2147483648 && n <= 2147483647);
        let r = Expression::unary_minus(Expression::LongLiteral(n).at_pos(Position::new(1, 1)));
        match &r {
            Expression::LongLiteral(m) => assert!(*m == -n && *m >= -2147483648 && *m <= 2147483647),
            Expression::DoubleLiteral(m) => assert!(*m == -(n as f64) && n == -2147483648),
            _ => assert!(false),
        }
        std::mem::forget(r);
        """, unwind=2, exhaustive=True, cost=20, bounds="every LONG literal value", functions=["rusty_parser::Expression::unary_minus"])
    b.add(ty, "vk_c10_unary_minus_float_literal", """
        let x: f32 = kani::any();
        let y: f64 = kani::any();
        kani::assume(x.is_finite() && y.is_finite());
        let r = Expression::unary_minus(Expression::SingleLiteral(x).at_pos(Position::new(1, 1)));
        match &r { Expression::SingleLiteral(m) => assert!(*m == -x), _ => assert!(false) }
        std::mem::forget(r);
        let r = Expression::unary_minus(Expression::DoubleLiteral(y).at_pos(Position::new(1, 1)));
        match &r { Expression::DoubleLiteral(m) => assert!(*m == -y), _ => assert!(false) }
        std::mem::forget(r);
        """, unwind=2, exhaustive=True, cost=20, bounds="every finite SINGLE and DOUBLE literal value", functions=["rusty_parser::Expression::unary_minus"])

    lit = b.file("rusty_parser/src/expr/integer_or_long_literal.rs", "rusty_parser", "expr::integer_or_long_literal")
    b.add(lit, "vk_c10_digit_values", """
        let c: u8 = kani::any();
        kani::assume(c < 128);
        let ch = c as char;
        if ch.is_ascii_hexdigit() {
            let want = if c <= b'9' { c - b'0' } else if c >= b'a' { c - b'a' + 10 } else { c - b'A' + 10 };
            assert!(convert_hex_digit(ch) == want);
        }
        if c >= b'0' && c <= b'7' {
            assert!(convert_oct_digit(ch) == c - b'0');
        }
        """, unwind=2, exhaustive=True, cost=5, bounds="all 22 hexadecimal and 8 octal digit characters",
          functions=["rusty_parser::expr::integer_or_long_literal::convert_hex_digit",
                     "rusty_parser::expr::integer_or_long_literal::convert_oct_digit"])

    # (probed: process_dec on a decimal literal of n symbolic digits - 1 digit 27 s, 4 digits 208 s, 5 and more digits CBMC out of
    # memory at 16 GB (String / core::fmt / str::parse); the type boundaries sit at 5 and 10 digits, so decimal literals stay outside.)

    bv = b.file("rusty_bit_vec/src/lib.rs", "rusty_bit_vec", "")
    for n in range(1, 10):
        digits_harness(b, bv, "hex", n, "quick")
    for n in range(1, 13):
        digits_harness(b, bv, "oct", n, "quick")
    b.add(bv, "vk_c10_all_zero_digits", """
        let bv = BitVec::new();                      // &H0, &O000: every digit stripped
        match bv.convert_to_int_or_long_expr() {
            Ok(BitVecIntOrLong::Int(i)) => assert!(i == 0),
            _ => assert!(false),
        }
        """, unwind=2, exhaustive=True, cost=3, bounds="the empty digit string", functions=["rusty_bit_vec::BitVec::convert_to_int_or_long_expr"])

    # decimal literals: the typing decision of process_dec for every value the digit string can denote.  The body of process_dec is
    # sliced from the current source (DESIGN 1.4) and compiled against a token whose text parses to an arbitrary u32 or fails to
    # parse: Token::to_string and str::parse (core::fmt; no verdict beyond 4 digits in the first session) stay outside.
    notes = []
    try:
        src = slicer.read("rusty_parser/src/expr/integer_or_long_literal.rs")
        sig, body = slicer.function(src, "process_dec")
        if "token: Token" not in " ".join(sig.split()):
            raise slicer.SliceError("unexpected signature of process_dec")
        b.helper(lit, """
    /// stands for the decimal token: its text parses to `value`, or does not fit a u32
    pub struct VkToken { pub value: Option<u32> }
    pub struct VkText { pub value: Option<u32> }
    impl VkToken { pub fn to_string(&self) -> VkText { VkText { value: self.value } } }
    impl VkText {
        pub fn parse<T>(&self) -> Result<u32, std::num::ParseIntError> {
            match self.value { Some(v) => Ok(v), None => "99999999999".parse::<u32>() }
        }
    }
    // ---- text of process_dec, unchanged, on the stand-in token ----
    pub fn vk_process_dec(token: VkToken) -> Result<Expression, ParserError> {%s}
""" % body)
        b.add(lit, "vk_c10_dec_literal_typing", """
        let v: u32 = kani::any();
        let r = vk_process_dec(VkToken { value: Some(v) });
        // the narrowest of INTEGER, LONG, DOUBLE that holds the value
        match &r {
            Ok(Expression::IntegerLiteral(i)) => assert!(v <= 32767 && *i == v as i32),
            Ok(Expression::LongLiteral(l)) => assert!(v > 32767 && v <= 2147483647 && *l == v as i64),
            Ok(Expression::DoubleLiteral(d)) => assert!(v > 2147483647 && *d == v as f64),
            _ => assert!(false),
        }
        std::mem::forget(r);
        """, unwind=2, exhaustive=True, cost=30, bounds="every value a decimal digit string can denote within u32 (0..4294967295)",
              functions=["rusty_parser::expr::integer_or_long_literal::process_dec (body, sliced)"],
              basic="PRINT 2147483647 + 1   ' the literal 2147483647 is a LONG: Overflow")
    except slicer.SliceError as e:
        notes.append("process_dec could not be sliced from the current tree (%s): vk_c10_dec_literal_typing missing from this run" % e)

    # &H / &O literals from the token text on: the bodies of process_hex / process_oct and of create_expression_from_bit_vec sliced from the
    # current source, on a token whose text is "&H" / "&O" followed by symbolic digits (zeros anywhere).  The bit vector is a stand-in that
    # records the digits pushed and whose conversion result is chosen by the solver: decided is the *scan* - the prefix and the leading zeros
    # are stripped, every other digit is converted and pushed in order - and the glue from the conversion result to the literal; the bit
    # vector itself is decided above for every digit string.  (With the real BitVec behind the symbolic text its length is symbolic -
    # a leading digit may or may not be a zero - and CBMC's post-processing does not finish in 600 s even for one digit.)
    try:
        src = slicer.read("rusty_parser/src/expr/integer_or_long_literal.rs")
        texts = []
        for fn_name in ("process_hex", "process_oct"):
            sig, body = slicer.function(src, fn_name)
            if "token: Token" not in " ".join(sig.split()):
                raise slicer.SliceError("unexpected signature of " + fn_name)
            texts.append("        pub fn vk_%s(token: VkTextToken) -> Result<Expression, ParserError> {%s}" % (fn_name, body))
        sig, body = slicer.function(src, "create_expression_from_bit_vec")
        texts.append("        pub fn create_expression_from_bit_vec(bit_vec: BitVec) -> Result<Expression, ParserError> {%s}" % body)
        for fn_name in ("convert_hex_digit", "convert_oct_digit"):
            try:
                texts.append("        pub " + slicer.function_text(src, fn_name))
            except slicer.SliceError:
                pass                      # a tree without this helper: the sliced callers either do not need it or do not compile
        b.helper(lit, """
    pub mod vk_scan {
        use rusty_bit_vec::{BitVecIntOrLong, OverflowError};
        use crate::{Expression, ParserError};
        /// stands for the &H / &O token: only its text is used
        pub struct VkTextToken { pub bytes: [u8; 16], pub n: usize }
        impl VkTextToken {
            pub fn to_string(&self) -> String {
                let mut v: Vec<u8> = Vec::with_capacity(16);
                let mut k = 0usize;
                while k < self.n { v.push(self.bytes[k]); k += 1; }
                unsafe { String::from_utf8_unchecked(v) }
            }
        }
        /// stands for rusty_bit_vec::BitVec: records the digits pushed; the conversion result is the solver's choice (VK_RESULT)
        pub struct BitVec { pub digits: [u8; 16], pub n: usize, pub base: u8 }
        pub static mut VK_SEEN: Option<BitVec> = None;
        pub static mut VK_RESULT: u8 = 0;          // 0 overflow, 1 INTEGER 7, 2 LONG 70000
        impl BitVec {
            pub fn new() -> Self { BitVec { digits: [0; 16], n: 0, base: 0 } }
            pub fn push_hex(&mut self, u: u8) { assert!(self.n < 16); self.digits[self.n] = u; self.n += 1; self.base = 16; }
            pub fn push_oct(&mut self, u: u8) { assert!(self.n < 16); self.digits[self.n] = u; self.n += 1; self.base = 8; }
            pub fn convert_to_int_or_long_expr(self) -> Result<BitVecIntOrLong, OverflowError> {
                unsafe { VK_SEEN = Some(self); }
                match unsafe { VK_RESULT } { 0 => Err(OverflowError), 1 => Ok(BitVecIntOrLong::Int(7)), _ => Ok(BitVecIntOrLong::Long(70000)) }
            }
        }
        /// stubs for String::remove and the UTF-8 decoder on ASCII text (see the harness attributes)
        pub fn vk_remove_ascii(s: &mut String, idx: usize) -> char {
            let v = unsafe { s.as_mut_vec() };
            assert!(idx < v.len() && v[idx] < 128);
            let c = v[idx];
            let mut i = idx;
            while i + 1 < v.len() { v[i] = v[i + 1]; i += 1; }
            v.pop();
            c as char
        }
        pub fn vk_next_code_point_ascii<'a, I: Iterator<Item = &'a u8>>(bytes: &mut I) -> Option<u32> {
            let x = *bytes.next()?;
            assert!(x < 128);
            Some(x as u32)
        }
        // ---- text of process_hex, process_oct, create_expression_from_bit_vec, convert_hex_digit, convert_oct_digit, unchanged ----
%s
    }
""" % "\n".join(texts))
        for kind, fn_name, base, letter, counts in (("hex", "process_hex", 16, "H", ((1, "quick"), (2, "thorough"), (4, "thorough"), (5, "quick"), (8, "thorough"), (9, "quick"), (10, "thorough"))),
                                                    ("oct", "process_oct", 8, "O", ((1, "quick"), (3, "thorough"), (6, "quick"), (7, "thorough"), (11, "thorough"), (12, "thorough")))):
            for n, t in counts:
                if base == 16:
                    digit = "match d { 0 => b'0', 1 => b'1', 2 => b'2', 3 => b'3', 4 => b'4', 5 => b'5', 6 => b'6', 7 => b'7', 8 => b'8', 9 => b'9', 10 => b'A', 11 => b'b', 12 => b'C', 13 => b'd', 14 => b'E', _ => b'F' }"
                    val = "(d & 15)"
                else:
                    digit = "match d { 0 => b'0', 1 => b'1', 2 => b'2', 3 => b'3', 4 => b'4', 5 => b'5', 6 => b'6', _ => b'7' }"
                    val = "(d & 7)"
                b.add(lit, "vk_c10_%s_scan_%ddigits" % (kind, n), """
        let mut bytes: [u8; 16] = [b'0'; 16];
        bytes[0] = b'&'; bytes[1] = b'%(letter)s';
        let mut digits: [u8; %(n)d] = [0; %(n)d];
        let mut k = 0usize;
        while k < %(n)d {
            let d: u8 = kani::any();
            let d = %(val)s;
            digits[k] = d;
            bytes[2 + k] = %(digit)s;
            k += 1;
        }
        let outcome: u8 = kani::any();
        kani::assume(outcome <= 2);
        unsafe { vk_scan::VK_RESULT = outcome; vk_scan::VK_SEEN = None; }
        let r = vk_scan::vk_%(fn)s(vk_scan::VkTextToken { bytes, n: 2 + %(n)d });
        // the scan: prefix and leading zeros stripped, every other digit converted and pushed in order
        let mut z = 0usize;
        while z < %(n)d && digits[z] == 0 { z += 1; }
        match unsafe { vk_scan::VK_SEEN.as_ref() } {
            // the code under test did not go through the bit vector: this harness cannot observe the scan (no verdict, not a violation)
            None => { std::mem::forget(r); return; }
            Some(seen) => {
                assert!(seen.n == %(n)d - z);
                assert!(seen.n == 0 || seen.base == %(base)d);
                let mut k = 0usize;
                while k < %(n)d { if k < seen.n { assert!(seen.digits[k] == digits[z + k]); } k += 1; }
            }
        }
        // the glue: the literal is what the bit vector's conversion says
        match &r {
            Ok(Expression::IntegerLiteral(i)) => assert!(outcome == 1 && *i == 7),
            Ok(Expression::LongLiteral(l)) => assert!(outcome == 2 && *l == 70000),
            Err(ParserError::Overflow) => assert!(outcome == 0),
            _ => assert!(false),
        }
        std::mem::forget(r);
        """ % {"n": n, "letter": letter, "val": val, "digit": digit, "base": base, "fn": fn_name},
                      unwind=20, tier=t, cost=20 + 8 * n,
                      stubs=[("std::string::String::remove", "vk_scan::vk_remove_ascii"), ("core::str::next_code_point", "vk_scan::vk_next_code_point_ascii")],
                      bounds="every &%s literal of exactly %d digits (any digits, zeros anywhere, both letter cases), every outcome of the bit vector's conversion" % (letter, n),
                      functions=["rusty_parser::expr::integer_or_long_literal::%s (body, sliced)" % fn_name,
                                 "rusty_parser::expr::integer_or_long_literal::convert_%s_digit (text, sliced)" % kind,
                                 "rusty_parser::expr::integer_or_long_literal::create_expression_from_bit_vec (body, sliced)"],
                      basic="PRINT &H0FFFF   ' -1")
    except slicer.SliceError as e:
        notes.append("process_hex / process_oct could not be sliced from the current tree (%s): vk_c10_*_scan_* missing from this run" % e)

    return b.build(
        tier,
        notes=notes,
        stubs=["String::remove -> a stub that shifts the bytes of an ASCII text down one by one; core::str::next_code_point -> one byte is one character (ASCII text); both used only by vk_c10_*_scan_*",
               "the &H / &O token -> a stand-in that only has a text; BitVec -> a stand-in that records the digits pushed, with a conversion result chosen by the solver (vk_c10_*_scan_*)", "the decimal token of process_dec -> a stand-in whose text parses to an arbitrary u32 (Token::to_string and str::parse are not executed)"],
        bounds="operator pairs: all 169 + 2 x 13 (exhaustive); hex literals of 1..9 digits, octal 1..12 (both boundaries: 16 and 32 significant bits), "
               "one instance per digit count, digits symbolic",
        outside="the rotation driver (binary_expr / flip_binary / apply_unary_priority_order recursion over deeper trees) and literal folding "
                "after unary minus; the digit scanning of decimal literals (Token::to_string, str::parse), decimal literals beyond u32 and fraction literals",
        assumptions=["the parser asks should_flip_binary exactly on trees of the shape x l (y r z) (binary_expr)"],
    )
